// C01, history leg: delivery is exactly-once, faithful and ordered also across gates, batches of any
// size, crashes with replay, restarts outside the budget, and long self-feeding chains (the actor
// sends itself the next message from inside Receive: hundreds of consecutive one-message batches,
// beyond the inbox's throughput limit).  One driver goroutine and the actor itself are the only
// senders, so the reference model's order is the only admissible one.
package c01

import (
	"testing"

	"pgregory.net/rapid"

	"verif/internal/life"
	"verif/internal/vh"
)

func TestMain(m *testing.M)   { vh.Main(m) }
func TestReplay(t *testing.T) { vh.Replay(t) }

var profile = life.Profile{
	MaxOps: 24, WSend: 8, WPanic: 2, WGate: 5, WRelease: 4, WPoison: 0, WStop: 0, WRespawn: 0, WBurst: 3, WChain: 3,
	MaxChain: 1, MaxChildren: 0, Lifecycle: false, SpawnSends: true, MaxBudget: 4, BigBurst: true,
	Spins: []int{0, 0, 0, 10, 100},
}

// non-trivial: a chain longer than the throughput limit, a batch-crossing burst, a crash with a
// queued tail, or sends racing the start-up
func nontrivial(f life.Features) bool {
	return f.LongChain || f.BatchCross || f.MidBatchCrash || f.SpawnSends
}

func TestDeliveryHistories(t *testing.T) {
	st := vh.Test("TestDeliveryHistories")
	rapid.Check(t, func(t *rapid.T) {
		spec, _ := life.Normalize(life.Gen(t, profile), false)
		life.Property(t, st, spec, true, life.CheckC01, nontrivial)
	})
}

func init() {
	vh.RegisterReplay("TestDeliveryHistories", life.Replayer(true, life.CheckC01))
}
