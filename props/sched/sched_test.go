// C02: an actor processes one message at a time.
// C03: no lost wake-up.
//
// Built with the "sched" overlay: package actor is compiled from a rewritten copy whose
// atomics and ring-buffer calls yield to vsched, a baton scheduler.  Exactly one managed
// thread runs at a time and the test chooses who runs next at every yield, so the
// interleaving is a generated value: it shrinks and replays.
package sched

import (
	"encoding/json"
	"fmt"
	"testing"

	"github.com/anthdm/hollywood/actor"
	"github.com/anthdm/hollywood/verifshim/vsched"
	"pgregory.net/rapid"

	"verif/internal/vh"
)

func TestMain(m *testing.M)   { vh.Main(m) }
func TestReplay(t *testing.T) { vh.Replay(t) }

type Cfg struct {
	Senders int `json:"senders"`
	Per     int `json:"per"`
	Size    int `json:"size"`
	// StartFirst: Start has returned before the first sender begins (otherwise it races with them)
	StartFirst bool `json:"start_first,omitempty"`
}

type Case struct {
	Cfg   Cfg   `json:"cfg"`
	Sched []int `json:"sched"`
}

type recProc struct {
	active  int
	overlap bool
	got     []int
}

func (r *recProc) Start()                           {}
func (r *recProc) PID() *actor.PID                  { return nil }
func (r *recProc) Shutdown()                        {}
func (r *recProc) Send(*actor.PID, any, *actor.PID) {}
func (r *recProc) Invoke(msgs []actor.Envelope) {
	r.active++
	if r.active > 1 {
		r.overlap = true
	}
	vsched.Yield("invoke")
	for _, m := range msgs {
		n, ok := m.Msg.(int)
		if !ok {
			n = -1 // an envelope nobody pushed (C01's verdict)
		}
		r.got = append(r.got, n)
	}
	vsched.Yield("invoke'")
	r.active--
}

type verdict struct {
	c01, c02, c03, other string
	trace                []string
	steps                int
}

// runInbox executes one schedule of: S sender threads pushing Per messages each into a real
// Inbox of initial size Size, and a thread calling Start, all concurrently.
func runInbox(c Cfg, choose vsched.Chooser) verdict {
	in := actor.NewInbox(c.Size)
	p := &recProc{}
	s := vsched.New()
	senders := func() {
		for i := 0; i < c.Senders; i++ {
			i := i
			s.Go(fmt.Sprintf("s%d", i), func() {
				for j := 0; j < c.Per; j++ {
					in.Send(actor.Envelope{Msg: i*100 + j})
				}
			})
		}
	}
	if c.StartFirst {
		s.Go("start", func() { in.Start(p); senders() })
	} else {
		senders()
		s.Go("start", func() { in.Start(p) })
	}
	v := verdict{}
	ok := s.Run(choose, 5000)
	v.trace, v.steps = s.Trace, s.Steps
	if !ok {
		v.other = "harness: step bound exceeded"
		return v
	}
	if s.Panic != nil {
		// a worker that runs before proc is published dereferences nil: two parties (Start and
		// the worker) act on the inbox at once
		v.c02 = fmt.Sprintf("a thread panicked: %v", s.Panic)
		return v
	}
	if p.overlap {
		v.c02 = "two invocations of Invoke overlapped"
	}
	// C01 at the inbox: what Invoke saw is what was pushed - nothing invented or duplicated, and each
	// sender's messages in its own order (whatever was delivered; a loss shows as C03's verdict)
	seen := map[int]bool{}
	for _, m := range p.got {
		seen[m] = true
	}
	dup := map[int]bool{}
	lastOf := map[int]int{}
	for _, m := range p.got {
		snd, seq := m/100, m%100
		if snd < 0 || snd >= c.Senders || seq >= c.Per || m < 0 {
			v.c01 = fmt.Sprintf("Invoke received %d, which no sender pushed; got=%v", m, p.got)
			break
		}
		if dup[m] {
			v.c01 = fmt.Sprintf("message %d was handed to Invoke twice; got=%v", m, p.got)
			break
		}
		dup[m] = true
		if l, ok := lastOf[snd]; ok && seq < l {
			v.c01 = fmt.Sprintf("sender %d pushed %d before %d, Invoke saw them the other way round; got=%v", snd, m, snd*100+l, p.got)
			break
		}
		lastOf[snd] = seq
	}
	// C03: every accepted message has been invoked (a phantom in place of a lost one does not count)
	missing := 0
	for snd := 0; snd < c.Senders; snd++ {
		for seq := 0; seq < c.Per; seq++ {
			if !seen[snd*100+seq] {
				missing++
			}
		}
	}
	if missing > 0 {
		v.c03 = fmt.Sprintf("every thread has finished (nothing is runnable) and the started inbox rests with %d of %d accepted messages unprocessed; invoked=%v", missing, c.Senders*c.Per, p.got)
	}
	return v
}

type tev struct{ th, label string }

func parse(trace []string) []tev {
	out := make([]tev, 0, len(trace))
	for _, s := range trace {
		for i := 0; i < len(s); i++ {
			if s[i] == '@' {
				out = append(out, tev{s[:i], s[i+1:]})
				break
			}
		}
	}
	return out
}

// classify reads the trace: context switches, threads that touched procStatus, and whether
// the lost-wake-up window was entered: a sender completed a push (its next yield is the CAS of
// schedule()) after a worker's empty PopN and before that worker's running->idle CAS executed.
func classify(trace []string) (switches int, casThreads int, window bool, beforeStart bool) {
	evs := parse(trace)
	cas := map[string]bool{}
	prevOf := map[string]string{}
	prev := make([]string, len(evs)) // label of the same thread's previous event
	for i, e := range evs {
		if i > 0 && evs[i-1].th != e.th {
			switches++
		}
		if e.label == "cas" {
			cas[e.th] = true
		}
		prev[i] = prevOf[e.th]
		prevOf[e.th] = e.label
	}
	startPublished := false
	for i, e := range evs {
		if e.th == "start" && e.label == "swap'" {
			startPublished = true
		}
		if e.label == "cas" && prev[i] == "push" && !startPublished && e.th != "start" {
			beforeStart = true
		}
		if e.label == "cas" && prev[i] == "popn" { // worker: empty PopN, about to CAS running->idle
			for j := i + 1; j < len(evs) && evs[j].th != e.th; j++ {
				if evs[j].label == "cas" && prev[j] == "push" {
					window = true
				}
			}
		}
	}
	return switches, len(cas), window, beforeStart
}

func chooserOf(sched []int) vsched.Chooser {
	k := 0
	return func(n int, _ []string) int {
		if k < len(sched) {
			k++
			return sched[k-1] % n
		}
		return 0
	}
}

func genCase(t *rapid.T) Case {
	c := Case{Cfg: Cfg{
		Senders: rapid.IntRange(1, 3).Draw(t, "senders"),
		Per:     rapid.IntRange(1, 3).Draw(t, "per"),
		Size:    rapid.IntRange(1, 4).Draw(t, "size"),

		StartFirst: rapid.Bool().Draw(t, "startfirst"),
	}}
	c.Sched = rapid.SliceOfN(rapid.IntRange(0, 7), 0, 200).Draw(t, "sched")
	return c
}

func randomLeg(t *testing.T, name string, pick func(verdict) string, nt func(sw, ct int, win, bs bool) bool) {
	st := vh.Test(name).NoJournal()
	rapid.Check(t, func(t *rapid.T) {
		c := genCase(t)
		v := runInbox(c.Cfg, chooserOf(c.Sched))
		if v.other != "" {
			t.Fatalf("%s", v.other)
		}
		if msg := pick(v); msg != "" {
			err := fmt.Errorf("%s; trace=%v", msg, v.trace)
			st.Fail(c, err)
			t.Fatalf("%v", err)
		}
		sw, ct, win, bs := classify(v.trace)
		var labels []string
		if win {
			labels = append(labels, "push-inside-the-idle-window")
		}
		if bs {
			labels = append(labels, "push-before-start-published-idle")
		}
		if sw >= 2 && ct >= 2 {
			labels = append(labels, "two-threads-touched-procStatus")
		}
		// only the part of the schedule that was consumed identifies the execution
		used := c
		if len(used.Sched) > v.steps {
			used.Sched = used.Sched[:v.steps]
		}
		st.Done(used, nt(sw, ct, win, bs), labels...)
	})
}

func TestSerialRandom(t *testing.T) {
	randomLeg(t, "TestSerialRandom", func(v verdict) string { return v.c02 },
		func(sw, ct int, win, bs bool) bool { return sw >= 2 && ct >= 2 })
}

func TestDeliveryRandom(t *testing.T) {
	randomLeg(t, "TestDeliveryRandom", func(v verdict) string { return v.c01 },
		func(sw, ct int, win, bs bool) bool { return sw >= 2 && ct >= 2 })
}

func TestDeliveryDFS(t *testing.T) {
	dfsLeg(t, "TestDeliveryDFS", func(v verdict) string { return v.c01 }, func(sw, ct int, win, bs bool) bool { return sw >= 2 && ct >= 2 })
}

func TestWakeupRandom(t *testing.T) {
	randomLeg(t, "TestWakeupRandom", func(v verdict) string { return v.c03 },
		func(sw, ct int, win, bs bool) bool { return win || bs })
}

// dfs explores every schedule of cfg with at most `bound` preemptions (a preemption = running
// another thread while the one that ran last could continue).
func dfs(t *testing.T, st *vh.T, cfg Cfg, bound int, pick func(verdict) string, nt func(sw, ct int, win, bs bool) bool) int {
	var prefix []int // position inside the allowed set at each depth
	n := 0
	for {
		var widths []int
		var taken []int
		k := 0
		last := ""
		budget := bound
		v := runInbox(cfg, func(w int, names []string) int {
			// allowed choices: continue the last thread for free; anything else costs a preemption
			allowed := make([]int, 0, w)
			li := -1
			for i, nm := range names {
				if nm == last {
					li = i
				}
			}
			if li >= 0 {
				allowed = append(allowed, li)
				if budget > 0 {
					for i := range names {
						if i != li {
							allowed = append(allowed, i)
						}
					}
				}
			} else {
				for i := range names {
					allowed = append(allowed, i)
				}
			}
			pos := 0
			if k < len(prefix) {
				pos = prefix[k]
			} else {
				prefix = append(prefix, 0)
			}
			if pos >= len(allowed) {
				pos = 0
			}
			widths = append(widths, len(allowed))
			ch := allowed[pos]
			if li >= 0 && ch != li {
				budget--
			}
			last = names[ch]
			taken = append(taken, ch)
			k++
			return ch
		})
		n++
		c := Case{Cfg: cfg, Sched: taken}
		if v.other != "" {
			t.Fatalf("%s", v.other)
		}
		if msg := pick(v); msg != "" {
			err := fmt.Errorf("%s (schedule %d of the bounded enumeration, <= %d preemptions); trace=%v", msg, n, bound, v.trace)
			st.Fail(c, err)
			t.Fatalf("%v", err)
		}
		sw, ct, win, bs := classify(v.trace)
		var labels []string
		if win {
			labels = append(labels, "push-inside-the-idle-window")
		}
		if bs {
			labels = append(labels, "push-before-start-published-idle")
		}
		st.Done(c, nt(sw, ct, win, bs), labels...)
		prefix = prefix[:k]
		i := k - 1
		for i >= 0 && prefix[i]+1 >= widths[i] {
			i--
		}
		if i < 0 {
			return n
		}
		prefix = append(prefix[:i], prefix[i]+1)
	}
}

var dfsCfgs = []Cfg{{2, 1, 1, false}, {1, 2, 1, false}, {2, 2, 2, false}, {3, 1, 1, false}, {2, 2, 1, true}, {3, 1, 2, true}}

func dfsLeg(t *testing.T, name string, pick func(verdict) string, nt func(sw, ct int, win, bs bool) bool) {
	st := vh.Test(name).NoJournal()
	bound := 2
	if vh.Tier() == "thorough" {
		bound = 3
	}
	space := map[string]int{}
	for _, cfg := range dfsCfgs {
		space[fmt.Sprintf("senders=%d per=%d size=%d startfirst=%v", cfg.Senders, cfg.Per, cfg.Size, cfg.StartFirst)] = dfs(t, st, cfg, bound, pick, nt)
	}
	st.Set("exhaustive", true)
	st.Set("exhaustive_space", fmt.Sprintf("all schedules with <= %d preemptions: %v", bound, space))
}

func TestSerialDFS(t *testing.T) {
	dfsLeg(t, "TestSerialDFS", func(v verdict) string { return v.c02 }, func(sw, ct int, win, bs bool) bool { return sw >= 2 && ct >= 2 })
}

func TestWakeupDFS(t *testing.T) {
	dfsLeg(t, "TestWakeupDFS", func(v verdict) string { return v.c03 }, func(sw, ct int, win, bs bool) bool { return win || bs })
}

// ---- engine level (C02): Receive never overlaps, lifecycle messages and restarts included

type ECase struct {
	Ops     []string `json:"ops"` // m | P (panics once) | poison | stop
	Senders int      `json:"senders"`
	Sched   []int    `json:"sched"`
}

type world struct {
	active    int
	overlap   string
	inc       int
	panicOnce map[string]bool
	log       []string
}

type rcv struct {
	w   *world
	inc int
}

func (r *rcv) Receive(c *actor.Context) {
	w := r.w
	w.active++
	w.log = append(w.log, fmt.Sprintf("%d:%T", r.inc, c.Message()))
	if w.active > 1 && w.overlap == "" {
		w.overlap = fmt.Sprintf("Receive(%T) of incarnation %d started while another Receive was running; log=%v", c.Message(), r.inc, w.log)
	}
	vsched.Yield("recv")
	w.active--
	if s, ok := c.Message().(string); ok && s[0] == 'P' && !w.panicOnce[s] {
		w.panicOnce[s] = true
		panic("generated crash " + s)
	}
}

func runEngine(c ECase) (string, string, []string, int) {
	if c.Senders < 1 || c.Senders > 3 {
		return "", "", nil, 0
	}
	w := &world{panicOnce: map[string]bool{}}
	s := vsched.New()
	s.Go("main", func() {
		e, _ := actor.NewEngine(actor.NewEngineConfig())
		pid := e.Spawn(func() actor.Receiver { w.inc++; return &rcv{w: w, inc: w.inc} }, "a", actor.WithID("1"), actor.WithRestartDelay(0), actor.WithInboxSize(2))
		for t := 0; t < c.Senders; t++ {
			t := t
			s.Go(fmt.Sprintf("s%d", t), func() {
				for i, op := range c.Ops {
					if i%c.Senders != t {
						continue
					}
					switch op {
					case "poison":
						e.Poison(pid)
					case "stop":
						e.Stop(pid)
					default:
						e.Send(pid, fmt.Sprintf("%s%d", op, i))
					}
				}
			})
		}
	})
	if !s.Run(chooserOf(c.Sched), 20000) {
		return "", "harness: step bound exceeded", s.Trace, s.Steps
	}
	return w.overlap, "", s.Trace, s.Steps
}

func TestSerialEngine(t *testing.T) {
	st := vh.Test("TestSerialEngine").NoJournal()
	rapid.Check(t, func(t *rapid.T) {
		c := ECase{
			Ops:     rapid.SliceOfN(rapid.SampledFrom([]string{"m", "m", "P", "poison", "stop"}), 1, 6).Draw(t, "ops"),
			Senders: rapid.IntRange(1, 2).Draw(t, "senders"),
			Sched:   rapid.SliceOfN(rapid.IntRange(0, 5), 0, 300).Draw(t, "sched"),
		}
		msg, other, trace, steps := runEngine(c)
		if other != "" {
			t.Fatalf("%s", other)
		}
		if msg != "" {
			err := fmt.Errorf("%s", msg)
			st.Fail(c, err)
			t.Fatalf("%v", err)
		}
		sw, ct, _, _ := classify(trace)
		crash, pill := false, false
		for _, o := range c.Ops {
			crash = crash || o == "P"
			pill = pill || o == "poison" || o == "stop"
		}
		var labels []string
		if crash {
			labels = append(labels, "restart")
		}
		if pill {
			labels = append(labels, "pill")
		}
		if crash && pill {
			labels = append(labels, "pill-meets-restart")
		}
		used := c
		if len(used.Sched) > steps {
			used.Sched = used.Sched[:steps]
		}
		st.Done(used, sw >= 2 && ct >= 2 && (crash || pill), labels...)
	})
}

func init() {
	inbox := func(pick func(verdict) string) func(json.RawMessage) error {
		return func(raw json.RawMessage) error {
			var c Case
			if err := json.Unmarshal(raw, &c); err != nil {
				return err
			}
			v := runInbox(c.Cfg, chooserOf(c.Sched))
			if v.other != "" {
				return fmt.Errorf("%s", v.other)
			}
			if msg := pick(v); msg != "" {
				return fmt.Errorf("%s; trace=%v", msg, v.trace)
			}
			return nil
		}
	}
	c02 := func(v verdict) string { return v.c02 }
	c03 := func(v verdict) string { return v.c03 }
	c01 := func(v verdict) string { return v.c01 }
	vh.RegisterReplay("TestDeliveryRandom", inbox(c01))
	vh.RegisterReplay("TestDeliveryDFS", inbox(c01))
	vh.RegisterReplay("TestSerialRandom", inbox(c02))
	vh.RegisterReplay("TestSerialDFS", inbox(c02))
	vh.RegisterReplay("TestWakeupRandom", inbox(c03))
	vh.RegisterReplay("TestWakeupDFS", inbox(c03))
	vh.RegisterReplay("TestSerialEngine", func(raw json.RawMessage) error {
		var c ECase
		if err := json.Unmarshal(raw, &c); err != nil {
			return err
		}
		msg, other, _, _ := runEngine(c)
		if other != "" {
			return fmt.Errorf("%s", other)
		}
		if msg != "" {
			return fmt.Errorf("%s", msg)
		}
		return nil
	})
}
