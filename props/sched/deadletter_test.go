// C09 under generated schedules: "Sending never panics or blocks the caller (nil and unknown PIDs
// included)" and "exactly one DeadLetterEvent carrying the original target, message and sender" while
// other threads register and unregister actors.  The plain history leg (props/events) sends from one
// driver; here 1..3 managed threads send to PIDs nobody answers to while another spawns and poisons
// actors (Registry.add / Registry.Remove take the registry's write lock, every send and every
// broadcast its read lock).  The rewritten package actor uses the lock shim (shim/sync): a thread
// that has to wait for a lock parks in the controller, and a state in which nobody can run although
// not everybody has finished is a deadlock - a verdict ("blocks the caller"), not a timeout.
package sched

import (
	"encoding/json"
	"fmt"
	"sort"
	"strings"
	"testing"

	"github.com/anthdm/hollywood/actor"
	"github.com/anthdm/hollywood/verifshim/vsched"
	"pgregory.net/rapid"

	"verif/internal/vh"
)

type DLCase struct {
	Sends  [][]string `json:"sends"`  // per sender thread: never | gone | nil
	Churn  int        `json:"churn"`  // spawn+poison cycles of the bystander thread
	Sender []bool     `json:"sender"` // per sender thread: send with a sender PID
	Sched  []int      `json:"sched,omitempty"`
	Prio   []int      `json:"prio,omitempty"`
	Change []int      `json:"change,omitempty"`
}

type dlPayload struct{ T, I int }

func runDeadLetters(c DLCase) (verdict string, other string, trace []string, steps int) {
	if len(c.Sends) < 1 || len(c.Sends) > 3 || c.Churn < 0 || c.Churn > 3 || len(c.Sender) != len(c.Sends) {
		return "", "", nil, 0
	}
	type got struct {
		target, sender string
		p              dlPayload
	}
	var events []got
	var foreign []string
	var sendPanic string
	s := vsched.New()
	never := actor.NewPID("local", "never/1")
	gone := actor.NewPID("local", "gone/1")
	pidS := func(p *actor.PID) string {
		if p == nil {
			return "<nil>"
		}
		return p.Address + "|" + p.ID
	}
	s.Go("main", func() {
		e, _ := actor.NewEngine(actor.NewEngineConfig())
		sub := e.SpawnFunc(func(ctx *actor.Context) {
			if ev, ok := ctx.Message().(actor.DeadLetterEvent); ok {
				if p, ok := ev.Message.(dlPayload); ok {
					events = append(events, got{pidS(ev.Target), pidS(ev.Sender), p})
				} else {
					foreign = append(foreign, fmt.Sprintf("%T", ev.Message))
				}
			}
		}, "sub", actor.WithID("1"))
		e.Subscribe(sub)
		g := e.SpawnFunc(func(*actor.Context) {}, "gone", actor.WithID("1"))
		e.Poison(g)
		for t := range c.Sends {
			t := t
			s.Go(fmt.Sprintf("s%d", t), func() {
				defer func() {
					if v := recover(); v != nil && sendPanic == "" {
						sendPanic = fmt.Sprintf("sender thread %d: Send panicked: %v", t, v)
					}
				}()
				var from *actor.PID
				if c.Sender[t] {
					from = actor.NewPID("local", fmt.Sprintf("from/%d", t))
				}
				for i, k := range c.Sends[t] {
					var to *actor.PID
					switch k {
					case "never":
						to = never
					case "gone":
						to = gone
					}
					if from != nil {
						e.SendWithSender(to, dlPayload{t, i}, from)
					} else {
						e.Send(to, dlPayload{t, i})
					}
				}
			})
		}
		if c.Churn > 0 {
			s.Go("churn", func() {
				for i := 0; i < c.Churn; i++ {
					p := e.SpawnFunc(func(*actor.Context) {}, "c", actor.WithID(fmt.Sprint(i)))
					e.Poison(p)
				}
			})
		}
	})
	var choose vsched.Chooser
	if len(c.Prio) > 0 {
		choose = pctChooser(c.Prio, c.Change)
	} else {
		choose = chooserOf(c.Sched)
	}
	if !s.Run(choose, 40000) {
		if len(s.Deadlock) > 0 {
			return fmt.Sprintf("a thread that sends to a PID without a registered actor is blocked for good (no thread can run, not all have finished): %s", strings.Join(s.Deadlock, "; ")), "", s.Trace, s.Steps
		}
		return "", "harness: step bound exceeded", s.Trace, s.Steps
	}
	if s.Panic != nil {
		return fmt.Sprintf("a thread of the engine panicked: %v\n%s", s.Panic, s.PanicStack), "", s.Trace, s.Steps
	}
	if sendPanic != "" {
		return sendPanic, "", s.Trace, s.Steps
	}
	if len(foreign) > 0 {
		return fmt.Sprintf("dead letters for messages nobody sent: %v", foreign), "", s.Trace, s.Steps
	}
	// the gone actor was poisoned by main before any sender started; whether it was unregistered when a
	// send looked it up is up to the schedule: a message to it is delivered-and-dropped or dead-lettered,
	// never both, never twice.  Messages to the never-spawned PID are dead letters, exactly one each.
	var want, have []string
	cnt := map[string]int{}
	for _, g := range events {
		k := fmt.Sprintf("%s<-%s %d:%d", g.target, g.sender, g.p.T, g.p.I)
		cnt[k]++
	}
	for t, l := range c.Sends {
		from := "<nil>"
		if c.Sender[t] {
			from = fmt.Sprintf("local|from/%d", t)
		}
		for i, k := range l {
			to := "<nil>"
			switch k {
			case "never":
				to = pidS(never)
			case "gone":
				to = pidS(gone)
			}
			key := fmt.Sprintf("%s<-%s %d:%d", to, from, t, i)
			n := cnt[key]
			delete(cnt, key)
			if k == "gone" || k == "nil" {
				// a nil target is dropped (engine.go send); the property asks only that the call returns
				if n > 1 {
					return fmt.Sprintf("message %d of sender %d (target: %s) produced %d DeadLetterEvents", i, t, k, n), "", s.Trace, s.Steps
				}
				continue
			}
			want = append(want, key)
			for j := 0; j < n; j++ {
				have = append(have, key)
			}
		}
	}
	for k, n := range cnt {
		for j := 0; j < n; j++ {
			have = append(have, k)
		}
	}
	sort.Strings(want)
	sort.Strings(have)
	if strings.Join(want, ", ") != strings.Join(have, ", ") {
		return fmt.Sprintf("every thread has finished; DeadLetterEvents (target<-sender message) seen by the subscriber: [%s], want exactly [%s]", strings.Join(have, ", "), strings.Join(want, ", ")), "", s.Trace, s.Steps
	}
	return "", "", s.Trace, s.Steps
}

func TestDeadLetterSchedules(t *testing.T) {
	st := vh.Test("TestDeadLetterSchedules").NoJournal()
	rapid.Check(t, func(t *rapid.T) {
		c := DLCase{Churn: rapid.IntRange(0, 3).Draw(t, "churn")}
		n := rapid.IntRange(1, 3).Draw(t, "senders")
		for i := 0; i < n; i++ {
			c.Sends = append(c.Sends, rapid.SliceOfN(rapid.SampledFrom([]string{"never", "never", "gone", "nil"}), 1, 3).Draw(t, "sends"))
			c.Sender = append(c.Sender, rapid.Bool().Draw(t, "with_sender"))
		}
		if rapid.Bool().Draw(t, "pct") {
			c.Prio = rapid.SliceOfN(rapid.IntRange(0, 9), 1, 12).Draw(t, "prio")
			c.Change = rapid.SliceOfN(rapid.IntRange(0, 400), 0, 4).Draw(t, "change")
		} else {
			c.Sched = rapid.SliceOfN(rapid.IntRange(0, 7), 0, 400).Draw(t, "sched")
		}
		msg, other, trace, steps := runDeadLetters(c)
		if other != "" {
			t.Fatalf("%s", other)
		}
		if msg != "" {
			err := fmt.Errorf("%s", msg)
			st.Fail(c, err)
			t.Fatalf("%v", err)
		}
		sw, _, _, _ := classify(trace)
		used := c
		if len(used.Sched) > steps {
			used.Sched = used.Sched[:steps]
		}
		var labels []string
		if c.Churn > 0 {
			labels = append(labels, "registrations-and-unregistrations-meanwhile")
		}
		if n >= 2 {
			labels = append(labels, "concurrent-senders")
		}
		if len(c.Prio) > 0 {
			labels = append(labels, "priority-schedule")
		}
		st.Done(used, sw >= 2 && c.Churn > 0, labels...)
	})
}

func init() {
	vh.RegisterReplay("TestDeadLetterSchedules", func(raw json.RawMessage) error {
		var c DLCase
		if err := json.Unmarshal(raw, &c); err != nil {
			return err
		}
		msg, other, _, _ := runDeadLetters(c)
		if other != "" {
			return fmt.Errorf("%s", other)
		}
		if msg != "" {
			return fmt.Errorf("%s", msg)
		}
		return nil
	})
}
