// Engine-level schedules for C04 (lifecycle protocol), C07 (every stop request is signalled, and
// only after Stopped + unregistration) and C03 (at quiescence nothing accepted is left unprocessed).
//
// Same build as the C02 legs: package actor rewritten so that every atomic operation, ring-buffer
// call, registry access and process.Send/Invoke/cleanup is a scheduling point, one managed thread at
// a time, the schedule a generated list of choices.  1..3 sender threads issue sends, panicking
// sends, Stop and Poison against ONE actor.  Because the harness owns the scheduler, "all threads
// have finished" is a fact: the liveness clauses are decided exactly at that point, not by a timeout.
//
//	C07  every context returned by Stop/Poison is done at quiescence; whenever a context is observed
//	     done (checked after every call, at every Receive entry and exit, and at quiescence) the
//	     actor has handled its final Stopped and is unregistered.
//	C04  per incarnation: Initialized, Started, user messages, at most one Stopped and nothing after
//	     it; when a stop request was issued, exactly one incarnation ends with the final Stopped
//	     and the id is unregistered at quiescence.
//	C03  without a stop request and within the restart budget the actor is alive at quiescence and
//	     every message sent was handled exactly once (the one that panicked: once, not redelivered).
package sched

import (
	"context"
	"encoding/json"
	"fmt"
	"os"
	"strings"
	"testing"

	"github.com/anthdm/hollywood/actor"
	"github.com/anthdm/hollywood/verifshim/vsched"
	"pgregory.net/rapid"

	"verif/internal/vh"
)

type LCase struct {
	Ops []string `json:"ops"` // m | P (panics on its first delivery) | poison | stop | chain (see Chain)
	// Chain: the message sent by a "chain" op makes the actor send itself the next chain message from
	// inside Receive, Chain times: that many consecutive non-empty batches in one run of the inbox
	// (more than its throughput of 300 when Chain > 300)
	Chain   int   `json:"chain,omitempty"`
	Senders int   `json:"senders"`
	Budget  int   `json:"budget"`
	Size    int   `json:"size"`
	Sched   []int `json:"sched"`
	// Priority schedule (used when Prio is not empty; PCT, Burckhardt et al. 2010): every thread gets
	// a priority in creation order (Prio, cyclic), the runnable thread with the highest priority runs,
	// and at the step numbers in Change the thread that ran last drops below everybody else.  A thread
	// can thereby sit out a long stretch and come back at a precise point - which uniform choices at
	// every step practically never produce.
	Prio   []int `json:"prio,omitempty"`
	Change []int `json:"change,omitempty"`
	// StartCrash: the first incarnation panics in its Initialized (1) or Started (2) handler: the restart
	// runs inside Spawn, on the spawner's thread, before the inbox was ever started
	StartCrash int `json:"start_crash,omitempty"`
	// StartCrashInc: which incarnation's handler panics (0 or 1 = the first, 2 = the one produced by the
	// first restart: a crash during the start-up that follows a crash, with the rest of the batch in the buffer)
	StartCrashInc int `json:"start_crash_inc,omitempty"`
}

// pctChooser implements the priority schedule.
func pctChooser(prio, change []int) vsched.Chooser {
	pr := map[string]int{}
	seen := 0
	low := 0
	step := 0
	lastRun := ""
	chg := map[int]bool{}
	for _, c := range change {
		chg[c] = true
	}
	return func(n int, names []string) int {
		for _, nm := range names {
			if _, ok := pr[nm]; !ok {
				pr[nm] = 10 + prio[seen%len(prio)]
				seen++
			}
		}
		if chg[step] && lastRun != "" {
			low--
			pr[lastRun] = low
		}
		step++
		best := 0
		for i, nm := range names {
			if pr[nm] > pr[names[best]] {
				best = i
			}
		}
		lastRun = names[best]
		return best
	}
}

type lworld struct {
	e             *actor.Engine
	inc           int
	log           []string // "inc:Kind[:payload]"
	panicked      map[string]bool
	ctxs          []context.Context
	how           []string
	early         string // C07: a context was done before the final Stopped / unregistration
	final         int    // number of final Stopped deliveries (an incarnation with no successor)
	chain         int
	startCrash    int
	startCrashInc int
	active        int // invocations of Receive in progress (C02)
	overlap       string
}

type lrcv struct {
	w   *lworld
	inc int
}

func (w *lworld) lastIsStopped() bool {
	return len(w.log) > 0 && strings.HasSuffix(w.log[len(w.log)-1], ":Stopped")
}

// watch: whenever some context is done, the actor must be stopped for good and unregistered.
func (w *lworld) watch(where string) {
	if w.early != "" || w.e == nil {
		return
	}
	for i, c := range w.ctxs {
		if c.Err() == nil {
			continue
		}
		reg := w.e.Registry.GetPID("a", "1") != nil
		if reg || !w.lastIsStopped() {
			w.early = fmt.Sprintf("the context of %s call #%d is done (%s) while the actor is registered=%v and its last delivery is %q: "+
				"done before the final Stopped was handled / before the unregistration; log=%v", w.how[i], i, where, reg, last(w.log), w.log)
			return
		}
	}
}

func tail(l []string, n int) []string {
	if len(l) <= n {
		return l
	}
	return l[len(l)-n:]
}

func last(l []string) string {
	if len(l) == 0 {
		return "<nothing>"
	}
	return l[len(l)-1]
}

func (r *lrcv) Receive(c *actor.Context) {
	w := r.w
	kind := fmt.Sprintf("%T", c.Message())
	kind = kind[strings.LastIndex(kind, ".")+1:]
	entry := fmt.Sprintf("%d:%s", r.inc, kind)
	if s, ok := c.Message().(string); ok {
		entry = fmt.Sprintf("%d:msg:%s", r.inc, s)
	}
	w.active++
	defer func() { w.active-- }()
	if w.active > 1 && w.overlap == "" {
		w.overlap = fmt.Sprintf("Receive(%s) was entered while another invocation of Receive of the same actor had not returned; log=%v", entry, w.log)
	}
	w.watch("at the entry of Receive(" + entry + ")")
	if kind == "Stopped" {
		// "has handled Stopped" = the handler has returned: logged at the exit
		vsched.Yield("recv")
		w.log = append(w.log, entry)
		return
	}
	w.log = append(w.log, entry)
	vsched.Yield("recv")
	if r.inc == max(1, w.startCrashInc) && ((w.startCrash == 1 && kind == "Initialized") || (w.startCrash == 2 && kind == "Started")) {
		panic("generated crash in " + kind)
	}
	if s, ok := c.Message().(string); ok && s[0] == 'P' && !w.panicked[s] {
		w.panicked[s] = true
		panic("generated crash " + s)
	}
	if s, ok := c.Message().(string); ok && s[0] == 'C' {
		var op, k int
		if n, _ := fmt.Sscanf(s, "C%d.%d", &op, &k); n == 2 && k < w.chain {
			c.Send(c.PID(), fmt.Sprintf("C%d.%d", op, k+1))
		}
	}
	w.watch("at the exit of Receive(" + entry + ")")
}

type lverdict struct{ c01, c02, c03, c04, c07, other string }

func runLife(c LCase) (v lverdict, trace []string, steps int) {
	ch := chooserOf(c.Sched)
	if len(c.Prio) > 0 {
		ch = pctChooser(c.Prio, c.Change)
	}
	return runLifeWith(c, ch)
}

func runLifeWith(c LCase, ch vsched.Chooser) (v lverdict, trace []string, steps int) {
	if c.Senders < 1 || c.Senders > 3 || len(c.Ops) < 1 || len(c.Ops) > 8 || c.Budget < 0 || c.Budget > 3 || c.Size < 1 || c.Chain < 0 || c.Chain > 400 {
		return
	}
	if c.StartCrash < 0 || c.StartCrash > 2 {
		return
	}
	if c.StartCrashInc < 0 || c.StartCrashInc > 2 {
		return
	}
	w := &lworld{panicked: map[string]bool{}, chain: c.Chain, startCrash: c.StartCrash, startCrashInc: c.StartCrashInc}
	s := vsched.New()
	s.Go("main", func() {
		e, _ := actor.NewEngine(actor.NewEngineConfig())
		w.e = e
		pid := e.Spawn(func() actor.Receiver { w.inc++; return &lrcv{w: w, inc: w.inc} }, "a", actor.WithID("1"),
			actor.WithRestartDelay(0), actor.WithInboxSize(c.Size), actor.WithMaxRestarts(c.Budget))
		for t := 0; t < c.Senders; t++ {
			t := t
			s.Go(fmt.Sprintf("s%d", t), func() {
				for i, op := range c.Ops {
					if i%c.Senders != t {
						continue
					}
					switch op {
					case "poison", "stop":
						var ctx context.Context
						if op == "poison" {
							ctx = e.Poison(pid)
						} else {
							ctx = e.Stop(pid)
						}
						w.ctxs = append(w.ctxs, ctx)
						w.how = append(w.how, op)
						w.watch("when the call returned")
					case "chain":
						e.Send(pid, fmt.Sprintf("C%d.0", i))
					default:
						e.Send(pid, fmt.Sprintf("%s%d", op, i))
					}
					w.watch("after op " + op)
				}
			})
		}
	})
	if !s.Run(ch, 40000) {
		v.other = "harness: step bound exceeded"
		return v, s.Trace, s.Steps
	}
	if s.Panic != nil {
		v.c04 = fmt.Sprintf("a panic escaped on a managed thread: %v", s.Panic)
		return v, s.Trace, s.Steps
	}
	// ---- quiescence: every thread has finished
	w.watch("at quiescence")
	v.c07 = w.early
	v.c02 = w.overlap
	// ---- C01: what one sender thread (or the actor itself, for a chain) sent arrives in that order,
	// nothing twice, nothing that was not sent
	{
		lastOp := map[int]int{}    // sender thread -> highest op index delivered so far
		lastChain := map[int]int{} // chain op -> highest link delivered so far
		once := map[string]bool{}
		for _, e := range w.log {
			i := strings.Index(e, ":msg:")
			if i < 0 || v.c01 != "" {
				continue
			}
			m := e[i+5:]
			if once[m] {
				v.c01 = fmt.Sprintf("message %q was handed to Receive twice; log=%v", m, w.log)
				break
			}
			once[m] = true
			var op, k int
			if n, _ := fmt.Sscanf(m, "C%d.%d", &op, &k); n == 2 {
				if prev, ok := lastChain[op]; ok && k != prev+1 {
					v.c01 = fmt.Sprintf("chain message %q arrived after link %d (each link is sent by the actor itself from inside the previous one's Receive); log tail=%v", m, prev, tail(w.log, 8))
				}
				lastChain[op] = k
				continue
			}
			var idx int
			if n, _ := fmt.Sscanf(m[1:], "%d", &idx); n != 1 || idx < 0 || idx >= len(c.Ops) || m[:1] != c.Ops[idx] {
				v.c01 = fmt.Sprintf("Receive got %q, which nobody sent; log=%v", m, w.log)
				break
			}
			t := idx % c.Senders
			if prev, ok := lastOp[t]; ok && idx < prev {
				v.c01 = fmt.Sprintf("sender thread %d sent op %d before op %d, Receive saw them the other way round; log=%v", t, idx, prev, w.log)
			}
			lastOp[t] = idx
		}
	}
	pills, crashes := 0, 0
	for _, op := range c.Ops {
		if op == "poison" || op == "stop" {
			pills++
		}
		if op == "P" {
			crashes++
		}
	}
	if c.StartCrash > 0 && (c.StartCrashInc <= 1 || crashes > 0) {
		crashes++ // (an incarnation 2 exists only if something crashed before)
	}
	reg := w.e.Registry.GetPID("a", "1") != nil
	if v.c07 == "" {
		for i, ctx := range w.ctxs {
			if ctx.Err() == nil {
				v.c07 = fmt.Sprintf("every thread has finished (nothing is runnable) and the context of %s call #%d is still not done; registered=%v log=%v", w.how[i], i, reg, w.log)
				break
			}
		}
	}
	// ---- C04: shape of the log
	perInc := map[int][]string{}
	maxInc := 0
	for _, e := range w.log {
		var inc int
		fmt.Sscanf(e, "%d:", &inc)
		perInc[inc] = append(perInc[inc], e[strings.Index(e, ":")+1:])
		if inc > maxInc {
			maxInc = inc
		}
	}
	finals := 0
	for inc := 1; inc <= maxInc && v.c04 == ""; inc++ {
		l := perInc[inc]
		if len(l) < 1 || l[0] != "Initialized" {
			v.c04 = fmt.Sprintf("incarnation %d: first delivery is %v, want Initialized; log=%v", inc, l, w.log)
			break
		}
		if len(l) >= 2 && l[1] != "Started" && l[1] != "Stopped" {
			v.c04 = fmt.Sprintf("incarnation %d: second delivery is %q, want Started; log=%v", inc, l[1], w.log)
			break
		}
		for i, x := range l {
			if x == "Stopped" && i != len(l)-1 {
				v.c04 = fmt.Sprintf("incarnation %d received %q after its Stopped; log=%v", inc, l[i+1], w.log)
				break
			}
			if (x == "Initialized" && i != 0) || (x == "Started" && i != 1) {
				v.c04 = fmt.Sprintf("incarnation %d received %s as delivery #%d; log=%v", inc, x, i, w.log)
				break
			}
		}
		if l[len(l)-1] == "Stopped" && inc == maxInc {
			finals++
		}
		if l[len(l)-1] != "Stopped" && inc != maxInc {
			v.c04 = fmt.Sprintf("incarnation %d was replaced by incarnation %d without having been told Stopped; log=%v", inc, inc+1, w.log)
		}
	}
	if v.c04 == "" && pills > 0 {
		if reg {
			v.c04 = fmt.Sprintf("%d stop request(s) were issued and every thread has finished, yet the actor is still registered; log=%v", pills, w.log)
		} else if finals != 1 {
			v.c04 = fmt.Sprintf("%d stop request(s) were issued and the actor is unregistered, but its last incarnation did not end with Stopped; log=%v", pills, w.log)
		}
	}
	// ---- C03 / delivery: alive and within budget: everything sent was handled exactly once
	if pills == 0 && crashes <= c.Budget {
		if !reg {
			v.c03 = fmt.Sprintf("no stop request and only %d crash(es) with MaxRestarts=%d, yet the actor is unregistered at quiescence; log=%v", crashes, c.Budget, w.log)
		}
		seen := map[string]int{}
		for _, e := range w.log {
			if i := strings.Index(e, ":msg:"); i >= 0 {
				seen[e[i+5:]]++
			}
		}
		for i, op := range c.Ops {
			if op == "chain" {
				for k := 0; k <= c.Chain && v.c03 == ""; k++ {
					if key := fmt.Sprintf("C%d.%d", i, k); seen[key] != 1 {
						v.c03 = fmt.Sprintf("every thread has finished (nothing is runnable); chain message %q (the actor sends itself the next one from inside Receive: %d consecutive non-empty batches) was handled %d times, want once; the actor rests with %d deliveries logged", key, c.Chain+1, seen[key], len(w.log))
					}
				}
				continue
			}
			k := fmt.Sprintf("%s%d", op, i)
			if v.c03 == "" && seen[k] != 1 {
				v.c03 = fmt.Sprintf("every thread has finished (nothing is runnable); message %q was handled %d times, want once (a started, not stopped actor rests with unprocessed messages, or a message was duplicated); log=%v", k, seen[k], w.log)
			}
		}
	}
	return v, s.Trace, s.Steps
}

func genLife(t *rapid.T) LCase {
	c := LCase{
		Ops:     rapid.SliceOfN(rapid.SampledFrom([]string{"m", "m", "m", "P", "poison", "stop"}), 1, 7).Draw(t, "ops"),
		Senders: rapid.IntRange(1, 3).Draw(t, "senders"),
		Budget:  rapid.IntRange(0, 3).Draw(t, "budget"),
		Size:    rapid.SampledFrom([]int{1, 2, 4}).Draw(t, "size"),
	}
	if rapid.IntRange(0, 11).Draw(t, "chain") == 0 {
		c.Chain = rapid.SampledFrom([]int{5, 299, 301, 320}).Draw(t, "chainlen")
		c.Ops[rapid.IntRange(0, len(c.Ops)-1).Draw(t, "chainpos")] = "chain"
	}
	c.StartCrash = rapid.SampledFrom([]int{0, 0, 0, 0, 1, 2}).Draw(t, "start_crash")
	if c.StartCrash > 0 {
		c.StartCrashInc = rapid.SampledFrom([]int{1, 1, 2}).Draw(t, "start_crash_inc")
	}
	if rapid.IntRange(0, 2).Draw(t, "uniform") == 0 {
		c.Sched = rapid.SliceOfN(rapid.IntRange(0, 5), 0, 400).Draw(t, "sched")
	} else {
		c.Prio = rapid.SliceOfN(rapid.IntRange(0, 9), 1, 8).Draw(t, "prio")
		c.Change = rapid.SliceOfN(rapid.IntRange(0, 250), 0, 4).Draw(t, "change")
	}
	return c
}

func lifeLeg(t *testing.T, name string, pick func(lverdict) string) {
	st := vh.Test(name).NoJournal()
	rapid.Check(t, func(t *rapid.T) {
		c := genLife(t)
		v, trace, steps := runLife(c)
		if v.other != "" {
			t.Fatalf("%s", v.other)
		}
		if msg := pick(v); msg != "" {
			err := fmt.Errorf("%s", msg)
			st.Fail(c, err)
			t.Fatalf("%v", err)
		}
		sw, _, _, _ := classify(trace)
		pills, crash := 0, false
		for _, o := range c.Ops {
			if o == "poison" || o == "stop" {
				pills++
			}
			crash = crash || o == "P"
		}
		var labels []string
		if pills >= 2 {
			labels = append(labels, "several-stop-requests")
		}
		if pills >= 1 && crash {
			labels = append(labels, "stop-request-meets-crash")
		}
		if pills == 0 {
			labels = append(labels, "no-stop-request")
		}
		used := c
		if len(used.Sched) > steps {
			used.Sched = used.Sched[:steps]
		}
		if len(c.Prio) > 0 {
			labels = append(labels, "priority-schedule")
		} else {
			labels = append(labels, "uniform-schedule")
		}
		st.Done(used, sw >= 2 && (pills >= 1 || crash), labels...)
	})
}

func TestStopSchedules(t *testing.T) {
	lifeLeg(t, "TestStopSchedules", func(v lverdict) string { return v.c07 })
}

func TestLifecycleSchedules(t *testing.T) {
	lifeLeg(t, "TestLifecycleSchedules", func(v lverdict) string { return v.c04 })
}

func TestDeliverySchedules(t *testing.T) {
	lifeLeg(t, "TestDeliverySchedules", func(v lverdict) string { return v.c01 })
}

func TestSerialSchedules(t *testing.T) {
	lifeLeg(t, "TestSerialSchedules", func(v lverdict) string { return v.c02 })
}

func TestQuiescenceSchedules(t *testing.T) {
	lifeLeg(t, "TestQuiescenceSchedules", func(v lverdict) string { return v.c03 })
}

func init() {
	rep := func(pick func(lverdict) string) func(json.RawMessage) error {
		return func(raw json.RawMessage) error {
			var c LCase
			if err := json.Unmarshal(raw, &c); err != nil {
				return err
			}
			v, _, _ := runLife(c)
			if v.other != "" {
				return fmt.Errorf("%s", v.other)
			}
			if msg := pick(v); msg != "" {
				return fmt.Errorf("%s", msg)
			}
			return nil
		}
	}
	vh.RegisterReplay("TestStopSchedules", rep(func(v lverdict) string { return v.c07 }))
	vh.RegisterReplay("TestLifecycleSchedules", rep(func(v lverdict) string { return v.c04 }))
	vh.RegisterReplay("TestQuiescenceSchedules", rep(func(v lverdict) string { return v.c03 }))
	vh.RegisterReplay("TestDeliverySchedules", rep(func(v lverdict) string { return v.c01 }))
	vh.RegisterReplay("TestSerialSchedules", rep(func(v lverdict) string { return v.c02 }))
}

// ---- bounded exhaustive exploration at engine level ----------------------------------------

// dfsEngine runs every schedule of the configuration with at most `bound` preemptions (running
// another thread although the one that ran last could continue) - stateless depth-first search by
// re-execution with a choice prefix, as in the inbox-level legs.  Returns the number of schedules.
func dfsEngine(t *testing.T, st *vh.T, base LCase, bound int, pick func(lverdict) string, limit int) (int, bool) {
	var prefix []int
	n := 0
	for {
		var widths, taken []int
		k := 0
		lastName := ""
		budget := bound
		ch := func(w int, names []string) int {
			allowed := make([]int, 0, w)
			li := -1
			for i, nm := range names {
				if nm == lastName {
					li = i
				}
			}
			if li >= 0 {
				allowed = append(allowed, li)
				if budget > 0 {
					for i := range names {
						if i != li {
							allowed = append(allowed, i)
						}
					}
				}
			} else {
				for i := range names {
					allowed = append(allowed, i)
				}
			}
			pos := 0
			if k < len(prefix) {
				pos = prefix[k]
			} else {
				prefix = append(prefix, 0)
			}
			if pos >= len(allowed) {
				pos = 0
			}
			widths = append(widths, len(allowed))
			c := allowed[pos]
			if li >= 0 && c != li {
				budget--
			}
			lastName = names[c]
			taken = append(taken, c)
			k++
			return c
		}
		v, _, _ := runLifeWith(base, ch)
		n++
		c := base
		c.Sched = taken
		if v.other != "" {
			t.Fatalf("%s", v.other)
		}
		if msg := pick(v); msg != "" {
			err := fmt.Errorf("%s (schedule %d of the bounded enumeration, <= %d preemptions)", msg, n, bound)
			st.Fail(c, err)
			t.Fatalf("%v", err)
		}
		st.Done(c, true, "enumerated-schedule")
		prefix = prefix[:k]
		i := k - 1
		for i >= 0 && prefix[i]+1 >= widths[i] {
			i--
		}
		if i < 0 {
			return n, true
		}
		if n >= limit {
			return n, false
		}
		prefix = append(prefix[:i], prefix[i]+1)
	}
}

var dfsEngineCfgs = []LCase{
	{Ops: []string{"stop", "stop"}, Senders: 2, Budget: 1, Size: 2},
	{Ops: []string{"poison", "stop"}, Senders: 2, Budget: 1, Size: 2},
	{Ops: []string{"stop", "m"}, Senders: 2, Budget: 1, Size: 2},
	{Ops: []string{"P", "stop"}, Senders: 2, Budget: 0, Size: 2},
	{Ops: []string{"P", "poison"}, Senders: 2, Budget: 1, Size: 2},
	{Ops: []string{"m", "m"}, Senders: 2, Budget: 1, Size: 1},
}

func dfsEngineLeg(t *testing.T, name string, pick func(lverdict) string) {
	st := vh.Test(name).NoJournal()
	// quick: every schedule with <= 1 preemption of every configuration (complete, ~1 s each) and the
	// first 6 000 schedules with <= 2; thorough: every schedule with <= 2 preemptions (60 000 - 190 000
	// per configuration, complete), one configuration per shard process.
	bound, limit := 1, 1000000
	cfgs := dfsEngineCfgs
	if vh.Tier() == "thorough" {
		bound, limit = 2, 3000000
		var shard int
		if _, err := fmt.Sscan(os.Getenv("VERIF_SHARD"), &shard); err == nil && shard >= 0 && shard < len(cfgs) {
			cfgs = cfgs[shard : shard+1]
		}
	}
	if v := os.Getenv("VERIF_DFS_BOUND"); v != "" {
		fmt.Sscan(v, &bound)
	}
	if v := os.Getenv("VERIF_DFS_LIMIT"); v != "" {
		fmt.Sscan(v, &limit)
	}
	space := map[string]string{}
	all := true
	for _, cfg := range cfgs {
		n, complete := dfsEngine(t, st, cfg, bound, pick, limit)
		space[fmt.Sprintf("ops=%v senders=%d budget=%d size=%d", cfg.Ops, cfg.Senders, cfg.Budget, cfg.Size)] = fmt.Sprintf("%d schedules with <= %d preemptions, complete=%v", n, bound, complete)
		all = all && complete
		if vh.Tier() != "thorough" && os.Getenv("VERIF_DFS_BOUND") == "" {
			n2, _ := dfsEngine(t, st, cfg, 2, pick, 6000)
			space[fmt.Sprintf("ops=%v senders=%d budget=%d size=%d (prefix)", cfg.Ops, cfg.Senders, cfg.Budget, cfg.Size)] = fmt.Sprintf("first %d schedules with <= 2 preemptions", n2)
		}
	}
	st.Set("exhaustive", all)
	st.Set("exhaustive_space", fmt.Sprintf("%v", space))
}

func TestStopDFS(t *testing.T) {
	dfsEngineLeg(t, "TestStopDFS", func(v lverdict) string { return v.c07 })
}

func TestLifecycleDFS(t *testing.T) {
	dfsEngineLeg(t, "TestLifecycleDFS", func(v lverdict) string { return v.c04 })
}

func init() {
	rep := func(pick func(lverdict) string) func(json.RawMessage) error {
		return func(raw json.RawMessage) error {
			var c LCase
			if err := json.Unmarshal(raw, &c); err != nil {
				return err
			}
			v, _, _ := runLife(c)
			if v.other != "" {
				return fmt.Errorf("%s", v.other)
			}
			if msg := pick(v); msg != "" {
				return fmt.Errorf("%s", msg)
			}
			return nil
		}
	}
	vh.RegisterReplay("TestStopDFS", rep(func(v lverdict) string { return v.c07 }))
	vh.RegisterReplay("TestLifecycleDFS", rep(func(v lverdict) string { return v.c04 }))
}
