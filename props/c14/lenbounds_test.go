// C14: "Len equals pushes minus popped elements and is never negative" - for the lock-free reader.
// Len() does not take the mutex, so it can observe whatever intermediate value Push/Pop/PopN store
// in the counter.  The linearizability leg samples few, short scripts; this leg is an invariant
// stress: producers, consumers with generated PopN sizes (mostly LARGER than the queue) and observer
// goroutines that do nothing but read Len() and compare it with bounds maintained by the harness:
//
//	0 <= Len()                                   (never negative)
//	Len() <= pushes started  - pops completed    (never more than could be inside)
//	Len() >= pushes completed - pops started ... clamped at 0 (never fewer than must be inside)
//
// Counters are atomics updated before a call starts / after it returns, so the bounds hold for
// every linearizable implementation whatever the interleaving.
package c14

import (
	"encoding/json"
	"fmt"
	"sync"
	"sync/atomic"
	"testing"

	"github.com/anthdm/hollywood/ringbuffer"
	"pgregory.net/rapid"

	"verif/internal/vh"
)

type LBCase struct {
	Cap       int64   `json:"cap"`
	Producers int     `json:"producers"`
	PerProd   int     `json:"per_prod"`
	PopNs     []int64 `json:"popns"` // sizes used round-robin by the consumer(s)
	Consumers int     `json:"consumers"`
	Observers int     `json:"observers"`
}

func runLenBounds(c LBCase) error {
	if c.Cap < 1 || c.Producers < 1 || c.Producers > 4 || c.PerProd < 1 || c.PerProd > 20000 || len(c.PopNs) < 1 || c.Consumers < 1 || c.Consumers > 3 || c.Observers < 1 || c.Observers > 4 {
		return nil
	}
	for _, n := range c.PopNs {
		if n < 0 {
			return nil
		}
	}
	rb := ringbuffer.New[int](c.Cap)
	var (
		pushStarted, pushDone atomic.Int64
		popStartedMax         atomic.Int64 // upper bound of elements that pops in flight or done may have removed
		popDone               atomic.Int64 // elements removed by pops that have returned
		stop                  atomic.Bool
		bad                   atomic.Value
		wg, owg               sync.WaitGroup
	)
	total := int64(c.Producers * c.PerProd)
	for o := 0; o < c.Observers; o++ {
		owg.Add(1)
		go func() {
			defer owg.Done()
			for !stop.Load() {
				// Each bound must be valid for the instant at which Len() was evaluated: the quantities
				// that can only make a bound tighter over time are read BEFORE the call, those that can
				// only loosen it AFTER the call.
				popped := popDone.Load()  // elements removed by pops that had returned before the call
				pushed := pushDone.Load() // pushes that had returned before the call
				l := rb.Len()
				started := pushStarted.Load()  // pushes that had started by the end of the call
				mayPop := popStartedMax.Load() // most that pops started by the end of the call can have removed
				hi := started - popped
				lo := pushed - mayPop
				if l < 0 {
					bad.CompareAndSwap(nil, fmt.Sprintf("Len() = %d: negative", l))
					return
				}
				if l > hi {
					bad.CompareAndSwap(nil, fmt.Sprintf("Len() = %d although at most %d elements can be inside (pushes started - elements popped by completed pops)", l, hi))
					return
				}
				if l < lo {
					bad.CompareAndSwap(nil, fmt.Sprintf("Len() = %d although at least %d elements must be inside (pushes completed - the most that started pops can remove)", l, lo))
					return
				}
			}
		}()
	}
	for p := 0; p < c.Producers; p++ {
		wg.Add(1)
		go func(p int) {
			defer wg.Done()
			for i := 0; i < c.PerProd; i++ {
				pushStarted.Add(1)
				rb.Push(p*1000000 + i)
				pushDone.Add(1)
			}
		}(p)
	}
	// every pushed element comes out exactly once, and what one consumer gets from one producer is in
	// that producer's push order
	seenMu := make([]sync.Mutex, c.Producers)
	seen := make([][]uint8, c.Producers)
	for p := range seen {
		seen[p] = make([]uint8, c.PerProd)
	}
	var got atomic.Int64
	for k := 0; k < c.Consumers; k++ {
		wg.Add(1)
		go func(k int) {
			defer wg.Done()
			i := k
			lastOf := map[int]int{}
			for got.Load() < total {
				n := c.PopNs[i%len(c.PopNs)]
				i++
				popStartedMax.Add(n)
				items, ok := rb.PopN(n)
				popStartedMax.Add(int64(len(items)) - n)
				popDone.Add(int64(len(items)))
				got.Add(int64(len(items)))
				for _, it := range items {
					p, idx := it/1000000, it%1000000
					if it < 0 || p >= c.Producers || idx >= c.PerProd {
						bad.CompareAndSwap(nil, fmt.Sprintf("PopN returned %d, which nobody pushed", it))
						return
					}
					if last, ok := lastOf[p]; ok && idx <= last {
						bad.CompareAndSwap(nil, fmt.Sprintf("a consumer got element %d of producer %d after element %d of the same producer", idx, p, last))
						return
					}
					lastOf[p] = idx
					seenMu[p].Lock()
					seen[p][idx]++
					dup := seen[p][idx] > 1
					seenMu[p].Unlock()
					if dup {
						bad.CompareAndSwap(nil, fmt.Sprintf("element %d of producer %d came out twice", idx, p))
						return
					}
				}
				if ok != (len(items) > 0) && n > 0 {
					bad.CompareAndSwap(nil, fmt.Sprintf("PopN(%d) returned %d items with ok=%v", n, len(items), ok))
					return
				}
				if b := bad.Load(); b != nil {
					return
				}
			}
		}(k)
	}
	wg.Wait()
	stop.Store(true)
	owg.Wait()
	if b, _ := bad.Load().(string); b != "" {
		return fmt.Errorf("%s (capacity %d, %d producers x %d, PopN sizes %v)", b, c.Cap, c.Producers, c.PerProd, c.PopNs)
	}
	for p := range seen {
		for idx, n := range seen[p] {
			if n != 1 {
				return fmt.Errorf("element %d of producer %d came out %d times, want once (capacity %d, %d producers x %d, PopN sizes %v)", idx, p, n, c.Cap, c.Producers, c.PerProd, c.PopNs)
			}
		}
	}
	if l := rb.Len(); l != 0 {
		return fmt.Errorf("after everything pushed was popped Len() = %d, want 0", l)
	}
	return nil
}

func TestLenBounds(t *testing.T) {
	st := vh.Test("TestLenBounds")
	rapid.Check(t, func(t *rapid.T) {
		c := LBCase{
			Cap:       rapid.SampledFrom([]int64{1, 2, 3, 8, 1024}).Draw(t, "cap"),
			Producers: rapid.IntRange(1, 3).Draw(t, "producers"),
			PerProd:   rapid.SampledFrom([]int{200, 1000, 5000}).Draw(t, "per"),
			PopNs:     rapid.SliceOfN(rapid.SampledFrom([]int64{0, 1, 2, 7, 64, 4096, 1 << 40}), 1, 4).Draw(t, "popns"),
			Consumers: rapid.IntRange(1, 2).Draw(t, "consumers"),
			Observers: rapid.IntRange(1, 3).Draw(t, "observers"),
		}
		// a consumer that only ever asks for 0 elements would never finish
		nonzero := false
		for _, n := range c.PopNs {
			nonzero = nonzero || n > 0
		}
		if !nonzero {
			c.PopNs = append(c.PopNs, 64)
		}
		st.Begin(c)
		if err := runLenBounds(c); err != nil {
			st.Fail(c, err)
			t.Fatalf("%v", err)
		}
		big := false
		for _, n := range c.PopNs {
			big = big || n >= 4096
		}
		lab := "popn-within-reach"
		if big {
			lab = "popn-larger-than-the-queue"
		}
		st.Done(c, big, lab)
	})
}

func init() {
	vh.RegisterReplay("TestLenBounds", func(raw json.RawMessage) error {
		var c LBCase
		if err := json.Unmarshal(raw, &c); err != nil {
			return err
		}
		for i := 0; i < 20; i++ {
			if err := runLenBounds(c); err != nil {
				return err
			}
		}
		return nil
	})
}
