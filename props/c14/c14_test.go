// C14: RingBuffer is an unbounded, linearizable FIFO queue.
package c14

import (
	"encoding/json"
	"fmt"
	"os"
	"sync"
	"testing"
	"time"

	"github.com/anishathalye/porcupine"
	"github.com/anthdm/hollywood/ringbuffer"
	"pgregory.net/rapid"

	"verif/internal/vh"
)

func TestMain(m *testing.M) { vh.Main(m) }

func TestReplay(t *testing.T) { vh.Replay(t) }

// ---- sequential model -------------------------------------------------------

type Op struct {
	K string `json:"k"` // push | pop | popn | len
	N int64  `json:"n,omitempty"`
}

type SeqCase struct {
	Cap int64 `json:"cap"`
	Ops []Op  `json:"ops"`
}

// shadow mirrors only the ring geometry (head, tail, mod) to LABEL cases; it takes
// no part in the verdict.
type shadow struct {
	head, tail, mod, n int64
	grewWrapped        bool
	grew               int
	popnWrap           bool
	wrapped            bool
}

func (s *shadow) push() {
	s.tail = (s.tail + 1) % s.mod
	if s.tail == s.head {
		s.grew++
		if s.head != 0 {
			s.grewWrapped = true
		}
		s.head, s.tail, s.mod = 0, s.mod, s.mod*2
	}
	if s.tail < s.head {
		s.wrapped = true
	}
	s.n++
}

func (s *shadow) pop(k int64) {
	if k > s.n {
		k = s.n
	}
	if k > 1 && s.head+k >= s.mod && (s.head+1)%s.mod != 0 {
		s.popnWrap = true
	}
	s.head = (s.head + k) % s.mod
	s.n -= k
}

func runSeq(c SeqCase) (labels []string, nt bool, err error) {
	if c.Cap < 1 {
		return nil, false, nil
	}
	rb := ringbuffer.New[int](c.Cap)
	sh := &shadow{mod: c.Cap}
	var model []int
	next := 1
	check := func(i int, what string, ok bool, format string, a ...any) error {
		if ok {
			return nil
		}
		return fmt.Errorf("op %d (%s): "+format, append([]any{i, what}, a...)...)
	}
	for i, op := range c.Ops {
		switch op.K {
		case "push":
			rb.Push(next)
			model = append(model, next)
			next++
			sh.push()
		case "pop":
			v, ok := rb.Pop()
			if len(model) == 0 {
				if e := check(i, "pop", !ok, "reported ok=true with value %v on an empty queue", v); e != nil {
					return nil, false, e
				}
			} else {
				if e := check(i, "pop", ok && v == model[0], "got (%v,%v) want (%v,true)", v, ok, model[0]); e != nil {
					return nil, false, e
				}
				model = model[1:]
				sh.pop(1)
			}
		case "popn":
			vs, ok := rb.PopN(op.N)
			if len(model) == 0 {
				if e := check(i, "popn", !ok && len(vs) == 0, "got (%v,%v) on an empty queue", vs, ok); e != nil {
					return nil, false, e
				}
			} else {
				k := int(op.N)
				if k > len(model) {
					k = len(model)
				}
				if e := check(i, "popn", ok && equal(vs, model[:k]), "PopN(%d) got (%v,%v) want (%v,true)", op.N, vs, ok, model[:k]); e != nil {
					return nil, false, e
				}
				model = model[k:]
				sh.pop(int64(k))
			}
		case "len":
		}
		if l := rb.Len(); l != int64(len(model)) {
			return nil, false, fmt.Errorf("after op %d (%s): Len()=%d, model has %d", i, op.K, l, len(model))
		}
	}
	// drain: nothing lost, nothing invented
	rest := []int{}
	for {
		v, ok := rb.Pop()
		if !ok {
			break
		}
		rest = append(rest, v)
		if len(rest) > len(model)+1 {
			break
		}
	}
	if !equal(rest, model) {
		return nil, false, fmt.Errorf("final drain got %v want %v", rest, model)
	}
	if rb.Len() != 0 {
		return nil, false, fmt.Errorf("Len()=%d after drain", rb.Len())
	}
	if sh.grew > 0 {
		labels = append(labels, "grew")
	}
	if sh.grewWrapped {
		labels = append(labels, "grew-while-head-nonzero")
	}
	if sh.popnWrap {
		labels = append(labels, "popn-across-wrap")
	}
	if sh.wrapped {
		labels = append(labels, "wrapped")
	}
	return labels, sh.grewWrapped || sh.popnWrap, nil
}

func equal(a, b []int) bool {
	if len(a) != len(b) {
		return false
	}
	for i := range a {
		if a[i] != b[i] {
			return false
		}
	}
	return true
}

func genOp(maxN int64) *rapid.Generator[Op] {
	return rapid.Custom(func(t *rapid.T) Op {
		switch rapid.IntRange(0, 9).Draw(t, "kind") {
		case 0, 1, 2, 3, 4:
			return Op{K: "push"}
		case 5, 6:
			return Op{K: "pop"}
		case 7, 8:
			return Op{K: "popn", N: rapid.Int64Range(0, maxN).Draw(t, "n")}
		default:
			return Op{K: "len"}
		}
	})
}

func TestSeqModel(t *testing.T) {
	st := vh.Test("TestSeqModel").NoJournal()
	rapid.Check(t, func(t *rapid.T) {
		c := SeqCase{
			Cap: rapid.Int64Range(1, 16).Draw(t, "cap"),
		}
		c.Ops = rapid.SliceOfN(genOp(2*c.Cap+2), 1, 120).Draw(t, "ops")
		labels, nt, err := runSeq(c)
		if err != nil {
			st.Fail(c, err)
			t.Fatalf("%v", err)
		}
		st.Done(c, nt, labels...)
	})
}

// Bounded exhaustive enumeration: every op sequence of length <= L over
// {push, pop, popn(1..3), len} for capacities 1..3.
func TestSeqExhaustive(t *testing.T) {
	st := vh.Test("TestSeqExhaustive").NoJournal()
	alphabet := []Op{{K: "push"}, {K: "pop"}, {K: "popn", N: 2}, {K: "popn", N: 3}, {K: "len"}}
	L := 7
	if os.Getenv("VERIF_TIER") != "thorough" {
		L = 6
	}
	var rec func(cap int64, ops []Op)
	failed := false
	rec = func(cap int64, ops []Op) {
		if failed {
			return
		}
		if len(ops) > 0 {
			c := SeqCase{Cap: cap, Ops: append([]Op(nil), ops...)}
			labels, nt, err := runSeq(c)
			if err != nil {
				st.Fail(c, err)
				failed = true
				t.Errorf("%v case=%+v", err, c)
				return
			}
			st.Done(c, nt, labels...)
		}
		if len(ops) == L {
			return
		}
		for _, o := range alphabet {
			rec(cap, append(ops, o))
		}
	}
	for cap := int64(1); cap <= 3; cap++ {
		rec(cap, nil)
	}
	if !failed {
		st.Set("exhaustive", true)
		st.Set("exhaustive_space", fmt.Sprintf("all sequences of length 1..%d over {push,pop,popn(2),popn(3),len}, capacities 1..3", L))
	}
}

func init() {
	vh.RegisterReplay("TestSeqModel", func(raw json.RawMessage) error {
		var c SeqCase
		if err := json.Unmarshal(raw, &c); err != nil {
			return err
		}
		_, _, err := runSeq(c)
		return err
	})
	vh.RegisterReplay("TestSeqExhaustive", func(raw json.RawMessage) error {
		var c SeqCase
		if err := json.Unmarshal(raw, &c); err != nil {
			return err
		}
		_, _, err := runSeq(c)
		return err
	})
	vh.RegisterReplay("FuzzRing", func(raw json.RawMessage) error {
		var c SeqCase
		if err := json.Unmarshal(raw, &c); err != nil {
			return err
		}
		_, _, err := runSeq(c)
		return err
	})
	vh.RegisterReplay("TestConcurrentLin", func(raw json.RawMessage) error {
		var c ConcCase
		if err := json.Unmarshal(raw, &c); err != nil {
			return err
		}
		for i := 0; i < 200; i++ {
			if _, err := runConc(c); err != nil {
				return err
			}
		}
		return nil
	})
}

// ---- native fuzz target -----------------------------------------------------

func decode(b []byte) SeqCase {
	if len(b) == 0 {
		return SeqCase{}
	}
	c := SeqCase{Cap: int64(b[0]%16) + 1}
	for _, x := range b[1:] {
		switch {
		case x < 128:
			c.Ops = append(c.Ops, Op{K: "push"})
		case x < 176:
			c.Ops = append(c.Ops, Op{K: "pop"})
		case x < 240:
			c.Ops = append(c.Ops, Op{K: "popn", N: int64(x-176) % 40})
		default:
			c.Ops = append(c.Ops, Op{K: "len"})
		}
	}
	return c
}

func FuzzRing(f *testing.F) {
	st := vh.Test("FuzzRing").NoJournal()
	f.Add([]byte{0, 1, 1, 130, 1, 1, 1, 180})
	f.Add([]byte{3, 1, 1, 1, 130, 130, 1, 1, 1, 1, 200, 1, 1, 1, 1, 1, 1, 239})
	f.Fuzz(func(t *testing.T, b []byte) {
		if len(b) > 4096 {
			return
		}
		c := decode(b)
		labels, nt, err := runSeq(c)
		if err != nil {
			st.Fail(c, err)
			t.Fatalf("%v", err)
		}
		st.Done(c, nt, labels...)
	})
}

// ---- concurrent leg: linearizability against the FIFO model -----------------

type ConcCase struct {
	Cap     int64  `json:"cap"`
	Prefill int    `json:"prefill"`
	Scripts [][]Op `json:"scripts"`
}

type qin struct {
	k string
	v int
	n int64
}
type qout struct {
	vs []int
	ok bool
	n  int64
}

var queueModel = porcupine.Model{
	Init: func() interface{} { return []int(nil) },
	Step: func(state, input, output interface{}) (bool, interface{}) {
		q := state.([]int)
		in := input.(qin)
		out := output.(qout)
		switch in.k {
		case "push":
			nq := make([]int, len(q)+1)
			copy(nq, q)
			nq[len(q)] = in.v
			return true, nq
		case "pop":
			if len(q) == 0 {
				return !out.ok, q
			}
			return out.ok && len(out.vs) == 1 && out.vs[0] == q[0], q[1:]
		case "popn":
			if len(q) == 0 {
				return !out.ok && len(out.vs) == 0, q
			}
			k := int(in.n)
			if k > len(q) {
				k = len(q)
			}
			return out.ok && equal(out.vs, q[:k]), q[k:]
		case "len":
			return out.n == int64(len(q)), q
		}
		return false, q
	},
	Equal: func(a, b interface{}) bool { return equal(a.([]int), b.([]int)) },
	DescribeOperation: func(in, out interface{}) string {
		return fmt.Sprintf("%+v -> %+v", in, out)
	},
}

func runConc(c ConcCase) (contended bool, err error) {
	rb := ringbuffer.New[int](c.Cap)
	var ops []porcupine.Operation
	base := time.Now()
	now := func() int64 { return int64(time.Since(base)) }
	// prefill sequentially (part of the history, client 0)
	val := 1
	for i := 0; i < c.Prefill; i++ {
		t0 := now()
		rb.Push(val)
		ops = append(ops, porcupine.Operation{ClientId: 0, Input: qin{k: "push", v: val}, Call: t0, Output: qout{}, Return: now()})
		val++
	}
	var mu sync.Mutex
	var wg sync.WaitGroup
	start := make(chan struct{})
	for g, script := range c.Scripts {
		g, script := g, script
		vals := make([]int, len(script))
		for i := range script {
			vals[i] = val
			val++
		}
		wg.Add(1)
		go func() {
			defer wg.Done()
			local := make([]porcupine.Operation, 0, len(script))
			<-start
			for i, op := range script {
				in := qin{k: op.K, v: vals[i], n: op.N}
				var out qout
				t0 := now()
				switch op.K {
				case "push":
					rb.Push(vals[i])
				case "pop":
					v, ok := rb.Pop()
					out.ok = ok
					if ok {
						out.vs = []int{v}
					}
				case "popn":
					vs, ok := rb.PopN(op.N)
					out.vs, out.ok = vs, ok
				case "len":
					out.n = rb.Len()
				}
				t1 := now()
				local = append(local, porcupine.Operation{ClientId: g + 1, Input: in, Call: t0, Output: out, Return: t1})
			}
			mu.Lock()
			ops = append(ops, local...)
			mu.Unlock()
		}()
	}
	close(start)
	wg.Wait()
	// overlap = some pair of ops from different clients overlaps in time
	for i := range ops {
		for j := i + 1; j < len(ops); j++ {
			if ops[i].ClientId != ops[j].ClientId && ops[i].Call < ops[j].Return && ops[j].Call < ops[i].Return {
				contended = true
			}
		}
	}
	// final drain as client 0 (after everything)
	for {
		t0 := now()
		v, ok := rb.Pop()
		out := qout{ok: ok}
		if ok {
			out.vs = []int{v}
		}
		ops = append(ops, porcupine.Operation{ClientId: 0, Input: qin{k: "pop"}, Call: t0, Output: out, Return: now()})
		if !ok || len(ops) > 10000 {
			break
		}
	}
	t0 := now()
	l := rb.Len()
	ops = append(ops, porcupine.Operation{ClientId: 0, Input: qin{k: "len"}, Call: t0, Output: qout{n: l}, Return: now()})
	res := porcupine.CheckOperationsTimeout(queueModel, ops, 20*time.Second)
	if res == porcupine.Illegal {
		desc := ""
		for _, o := range ops {
			desc += fmt.Sprintf("\n  c%d [%d,%d] %s", o.ClientId, o.Call, o.Return, queueModel.DescribeOperation(o.Input, o.Output))
		}
		return contended, fmt.Errorf("history is not linearizable w.r.t. a FIFO queue:%s", desc)
	}
	return contended, nil
}

func TestConcurrentLin(t *testing.T) {
	st := vh.Test("TestConcurrentLin")
	rapid.Check(t, func(t *rapid.T) {
		c := ConcCase{
			Cap:     rapid.Int64Range(1, 8).Draw(t, "cap"),
			Prefill: rapid.IntRange(0, 6).Draw(t, "prefill"),
		}
		n := rapid.IntRange(2, 6).Draw(t, "goroutines")
		for g := 0; g < n; g++ {
			c.Scripts = append(c.Scripts, rapid.SliceOfN(genOp(6), 1, 8).Draw(t, fmt.Sprintf("script%d", g)))
		}
		st.Begin(c)
		cont := false
		for rep := 0; rep < 10; rep++ {
			k, err := runConc(c)
			if err != nil {
				st.Fail(c, err)
				t.Fatalf("%v", err)
			}
			cont = cont || k
		}
		lab := "no-overlap-observed"
		if cont {
			lab = "overlapping-ops-observed"
		}
		st.Done(c, cont, lab)
	})
}
