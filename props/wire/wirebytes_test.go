// C16, byte level: what a peer sends is BYTES.  The hostile-envelope legs start from decoded
// Envelope values, so a defect of the node's decoder (the generated vtproto UnmarshalVT code, which
// the drpc codec calls) is invisible to them: the deliveries would agree with a wrongly decoded
// envelope.  Here the generated value is the wire encoding itself - fields in any order, repeated
// scalar fields (the protobuf wire format says the last one wins), unknown fields, over-long
// varints, negative int32s as 10-byte varints, empty submessages - and the oracle is differential:
//
//	the envelope the node's decoder (Envelope.UnmarshalVT) reads from the bytes must equal, field by
//	field, the envelope that the reference implementation of the wire format
//	(google.golang.org/protobuf's reflection-based proto.Unmarshal) reads from the same bytes,
//
// whenever both accept them.  Otherwise a message would be delivered to a target, with a sender or
// as a type that its own indices - as written by the peer - do not name.  The decoded envelope then
// goes through the real stream reader with the hostile-envelope oracle (no panic, deliveries only
// where the valid indices point).
package wire

import (
	"encoding/json"
	"fmt"
	"testing"

	"github.com/anthdm/hollywood/actor"
	"github.com/anthdm/hollywood/remote"
	"google.golang.org/protobuf/encoding/protowire"
	"google.golang.org/protobuf/proto"
	"pgregory.net/rapid"

	"verif/internal/vh"
)

// WField is one field occurrence on the wire.
type WField struct {
	Num  int      `json:"num"`           // field number
	V    int64    `json:"v,omitempty"`   // varint value (int32 fields: sign-extended)
	Pad  int      `json:"pad,omitempty"` // extra continuation bytes: a non-minimal varint
	S    string   `json:"s,omitempty"`   // string / bytes payload
	Sub  []WField `json:"sub,omitempty"` // submessage
	Kind string   `json:"kind"`          // varint | bytes | sub | fixed32 | fixed64 | rawlen (length varint V, then S)
}

type WBCase struct {
	Fields []WField `json:"fields"`
}

func appendVarintPadded(b []byte, v uint64, pad int) []byte {
	start := len(b)
	b = protowire.AppendVarint(b, v)
	n := len(b) - start
	if pad <= 0 || n+pad > 10 {
		return b
	}
	b[len(b)-1] |= 0x80
	for i := 0; i < pad-1; i++ {
		b = append(b, 0x80)
	}
	return append(b, 0x00)
}

func wencode(fs []WField) []byte {
	var b []byte
	for _, f := range fs {
		switch f.Kind {
		case "varint":
			b = protowire.AppendTag(b, protowire.Number(f.Num), protowire.VarintType)
			b = appendVarintPadded(b, uint64(f.V), f.Pad)
		case "bytes":
			b = protowire.AppendTag(b, protowire.Number(f.Num), protowire.BytesType)
			b = protowire.AppendBytes(b, []byte(f.S))
		case "sub":
			b = protowire.AppendTag(b, protowire.Number(f.Num), protowire.BytesType)
			b = protowire.AppendBytes(b, wencode(f.Sub))
		case "rawlen":
			// a length-delimited field whose length varint is whatever the peer likes (and no payload to match)
			b = protowire.AppendTag(b, protowire.Number(f.Num), protowire.BytesType)
			b = appendVarintPadded(b, uint64(f.V), f.Pad)
			b = append(b, f.S...)
		case "fixed32":
			b = protowire.AppendTag(b, protowire.Number(f.Num), protowire.Fixed32Type)
			b = protowire.AppendFixed32(b, uint32(f.V))
		case "fixed64":
			b = protowire.AppendTag(b, protowire.Number(f.Num), protowire.Fixed64Type)
			b = protowire.AppendFixed64(b, uint64(f.V))
		}
	}
	return b
}

var wireIdxPool = []int64{0, 0, 1, 1, 2, 3, 4, 5, 7, -1, 2147483647, -2147483648, 1 << 31, 1 << 32, 6}

func genWIdx(t *rapid.T, num int) WField {
	return WField{Num: num, Kind: "varint", V: rapid.SampledFrom(wireIdxPool).Draw(t, "idx"), Pad: rapid.SampledFrom([]int{0, 0, 0, 1, 3}).Draw(t, "pad")}
}

func genWUnknown(t *rapid.T, base int) WField {
	k := rapid.SampledFrom([]string{"varint", "bytes", "fixed32", "fixed64"}).Draw(t, "ukind")
	return WField{Num: base + rapid.IntRange(0, 3).Draw(t, "unum"), Kind: k, V: int64(rapid.IntRange(0, 300).Draw(t, "uv")), S: rapid.SampledFrom([]string{"", "x", "\x0a\x01y"}).Draw(t, "us")}
}

func genWPID(t *rapid.T, num int, pool []string) WField {
	f := WField{Num: num, Kind: "sub"}
	n := rapid.IntRange(0, 4).Draw(t, "npidf")
	for i := 0; i < n; i++ {
		switch rapid.IntRange(0, 5).Draw(t, "pidf") {
		case 0, 1:
			f.Sub = append(f.Sub, WField{Num: 1, Kind: "bytes", S: rapid.SampledFrom([]string{"local", "local", "x:1", ""}).Draw(t, "addr")})
		case 2, 3, 4:
			f.Sub = append(f.Sub, WField{Num: 2, Kind: "bytes", S: rapid.SampledFrom(pool).Draw(t, "id")})
		default:
			f.Sub = append(f.Sub, genWUnknown(t, 3))
		}
	}
	return f
}

var hostileLens = []int64{1<<63 - 1, 1<<63 - 2, 1 << 62, 1<<31 - 1, 1 << 31, 1 << 32, 1000, 5, -1, -2147483648}

func genRawLen(t *rapid.T, nums []int) WField {
	return WField{Num: rapid.SampledFrom(nums).Draw(t, "rawnum"), Kind: "rawlen", V: rapid.SampledFrom(hostileLens).Draw(t, "rawlen"),
		Pad: rapid.SampledFrom([]int{0, 0, 1}).Draw(t, "rawpad"), S: rapid.SampledFrom([]string{"", "x", "abcdefgh"}).Draw(t, "rawtail")}
}

func genWMessage(t *rapid.T) WField {
	f := WField{Num: 4, Kind: "sub"}
	n := rapid.IntRange(0, 7).Draw(t, "nmsgf")
	for i := 0; i < n; i++ {
		switch rapid.IntRange(0, 8).Draw(t, "msgf") {
		case 0:
			f.Sub = append(f.Sub, WField{Num: 1, Kind: "bytes", S: rapid.SampledFrom([]string{"", "\x0a\x01x", "\x0a\x03abc", "\x0a\x05x", "\xff"}).Draw(t, "data")})
		case 1, 2, 3:
			f.Sub = append(f.Sub, genWIdx(t, 2)) // targetIndex, possibly several times
		case 4, 5:
			f.Sub = append(f.Sub, genWIdx(t, 3))
		case 6, 7:
			f.Sub = append(f.Sub, genWIdx(t, 4))
		default:
			f.Sub = append(f.Sub, genWUnknown(t, 5))
		}
	}
	if rapid.IntRange(0, 9).Draw(t, "rawinmsg") == 0 {
		f.Sub = append(f.Sub, genRawLen(t, []int{1, 5, 6})) // the data field, or an unknown one
	}
	return f
}

func genWireBytes(t *rapid.T) WBCase {
	var c WBCase
	n := rapid.IntRange(0, 14).Draw(t, "nfields")
	targets := []string{"t/0", "t/1", "t/2", "t/3", "t/4", "t/5", "nobody/1"}
	senders := []string{"s/A", "s/B", "s/C"}
	for i := 0; i < n; i++ {
		switch rapid.IntRange(0, 9).Draw(t, "f") {
		case 0, 1:
			c.Fields = append(c.Fields, WField{Num: 1, Kind: "bytes", S: rapid.SampledFrom([]string{"remote.TestMessage", "remote.TestMessage", "actor.PID", "unknown.Type", ""}).Draw(t, "type")})
		case 2, 3, 4:
			c.Fields = append(c.Fields, genWPID(t, 2, targets))
		case 5:
			c.Fields = append(c.Fields, genWPID(t, 3, senders))
		case 6, 7, 8:
			c.Fields = append(c.Fields, genWMessage(t))
		default:
			c.Fields = append(c.Fields, genWUnknown(t, 5))
		}
	}
	if rapid.IntRange(0, 9).Draw(t, "rawtop") == 0 {
		c.Fields = append(c.Fields, genRawLen(t, []int{1, 2, 3, 4, 7}))
	}
	return c
}

func wpid(p *actor.PID) string {
	if p == nil {
		return "<nil>"
	}
	return fmt.Sprintf("%q/%q", p.GetAddress(), p.GetID())
}

// sameEnvelope compares the fields the stream reader uses.
func sameEnvelope(vt, ref *remote.Envelope) error {
	if fmt.Sprint(vt.TypeNames) != fmt.Sprint(ref.TypeNames) || len(vt.TypeNames) != len(ref.TypeNames) {
		return fmt.Errorf("type names: node reads %q, the wire format says %q", vt.TypeNames, ref.TypeNames)
	}
	cmpPIDs := func(what string, a, b []*actor.PID) error {
		if len(a) != len(b) {
			return fmt.Errorf("%s: node reads %d entries, the wire format says %d", what, len(a), len(b))
		}
		for i := range a {
			if wpid(a[i]) != wpid(b[i]) {
				return fmt.Errorf("%s[%d]: node reads %s, the wire format says %s", what, i, wpid(a[i]), wpid(b[i]))
			}
		}
		return nil
	}
	if err := cmpPIDs("targets", vt.Targets, ref.Targets); err != nil {
		return err
	}
	if err := cmpPIDs("senders", vt.Senders, ref.Senders); err != nil {
		return err
	}
	if len(vt.Messages) != len(ref.Messages) {
		return fmt.Errorf("messages: node reads %d, the wire format says %d", len(vt.Messages), len(ref.Messages))
	}
	for i := range vt.Messages {
		a, b := vt.Messages[i], ref.Messages[i]
		if a.GetTargetIndex() != b.GetTargetIndex() || a.GetSenderIndex() != b.GetSenderIndex() || a.GetTypeNameIndex() != b.GetTypeNameIndex() || string(a.GetData()) != string(b.GetData()) {
			return fmt.Errorf("message %d: node reads {target %d sender %d type %d data %q}, the wire format says {target %d sender %d type %d data %q}: "+
				"the message would be delivered to a target / with a sender / as a type that the peer's bytes do not name",
				i, a.GetTargetIndex(), a.GetSenderIndex(), a.GetTypeNameIndex(), a.GetData(), b.GetTargetIndex(), b.GetSenderIndex(), b.GetTypeNameIndex(), b.GetData())
		}
	}
	return nil
}

func runWireBytes(c WBCase) (labels []string, nt bool, err error) {
	b := wencode(c.Fields)
	vt, ref := &remote.Envelope{}, &remote.Envelope{}
	var evt, eref error
	if p := protect(func() { evt = vt.UnmarshalVT(b) }); p != nil {
		return nil, false, fmt.Errorf("Envelope.UnmarshalVT panicked on %d bytes from the peer: %v", len(b), p)
	}
	eref = proto.Unmarshal(b, ref)
	if evt != nil {
		return []string{"rejected-by-the-node"}, false, nil // bad input may end the stream with an error
	}
	if eref != nil {
		// the reference is stricter in places the property does not care about (UTF-8 in strings)
		labels = append(labels, "accepted-by-the-node-only")
	} else if err := sameEnvelope(vt, ref); err != nil {
		return nil, false, fmt.Errorf("the node's decoder and the protobuf wire format disagree about %d bytes: %v", len(b), err)
	}
	dup := false
	for _, f := range c.Fields {
		if f.Num == 4 && f.Kind == "sub" {
			seen := map[int]int{}
			for _, s := range f.Sub {
				if s.Kind == "varint" {
					seen[s.Num]++
					if seen[s.Num] > 1 {
						dup = true
					}
					if s.Pad > 0 {
						labels = append(labels, "non-minimal-varint")
					}
				}
			}
		}
	}
	if dup {
		labels = append(labels, "index-field-repeated-on-the-wire")
	}
	l2, _, err := runHostile([]*remote.Envelope{vt})
	if err != nil {
		return nil, false, err
	}
	return append(labels, l2...), dup || len(vt.Messages) > 1, nil
}

func TestWireBytes(t *testing.T) {
	st := vh.Test("TestWireBytes").NoJournal()
	rapid.Check(t, func(t *rapid.T) {
		c := genWireBytes(t)
		labels, nt, err := runWireBytes(c)
		if err != nil {
			st.Fail(c, err)
			t.Fatalf("%v", err)
		}
		st.Done(c, nt, labels...)
	})
}

func init() {
	vh.RegisterReplay("TestWireBytes", func(raw json.RawMessage) error {
		var c WBCase
		if err := json.Unmarshal(raw, &c); err != nil {
			return err
		}
		_, _, err := runWireBytes(c)
		return err
	})
}
