// C16: an inbound envelope names its targets by id, and the ids of the node's OWN processes are not
// secret: the stream writer for a peer address is registered as "stream/<address>" as soon as the node
// has sent something to that address.  A peer may therefore address a well-formed message to it.
// "No inbound envelope can crash a node": whatever the stream writer does with a message that is not
// one of its own delivery requests, it must not panic on its inbox goroutine.
package wire

import (
	"encoding/json"
	"fmt"
	"sync"
	"testing"
	"time"

	"github.com/anthdm/hollywood/actor"
	"github.com/anthdm/hollywood/remote"
	"pgregory.net/rapid"

	"verif/internal/vh"
)

type ITCase struct {
	// Msgs: each message of the hostile envelope goes to target 0 = the stream writer's own id,
	// 1.. = recording actors t/0..; Type indexes {remote.TestMessage, actor.PID, actor.Ping}
	Targets []int `json:"targets"`
	Types   []int `json:"types"`
	Senders []int `json:"senders"` // 0 = none, 1 = a foreign PID, 2 = the writer's own PID
	// Dialling: the envelope arrives while the writer is still making its connection (registered, inbox
	// running, no stream yet - a peer that is slow or down keeps it there for seconds)
	Dialling bool `json:"dialling,omitempty"`
}

type syncStream struct {
	fakeStream
	mu   sync.Mutex
	got  chan struct{}
	seen int
}

func (s *syncStream) Send(e *remote.Envelope) error {
	s.mu.Lock()
	s.seen += len(e.Messages)
	s.mu.Unlock()
	select {
	case s.got <- struct{}{}:
	default:
	}
	return nil
}

func runInternalTargets(c ITCase) (labels []string, nt bool, err error) {
	if len(c.Targets) < 1 || len(c.Targets) > 8 || len(c.Types) != len(c.Targets) || len(c.Senders) != len(c.Targets) {
		return nil, false, nil
	}
	e, aerr := actor.NewEngine(actor.NewEngineConfig())
	if aerr != nil {
		return nil, false, fmt.Errorf("harness: %v", aerr)
	}
	var log []delivery
	for i := 0; i < 3; i++ {
		e.SpawnProc(recProc{pid: actor.NewPID(e.Address(), fmt.Sprintf("t/%d", i)), log: &log})
	}
	const peer = "10.9.8.7:4000"
	var pmu sync.Mutex
	var panicked any
	ss := &syncStream{got: make(chan struct{}, 64)}
	var first remote.DRPCRemote_ReceiveStream = ss
	if c.Dialling {
		first = nil
	}
	w := remote.VerifNewRunningWriter(e, peer, first, fakeConn{}, func(v any) { pmu.Lock(); panicked = v; pmu.Unlock() })
	wpid := e.SpawnProc(w)
	if wpid.ID != "stream/"+peer {
		return nil, false, fmt.Errorf("harness: the writer is registered as %q", wpid.ID)
	}
	typeNames := []string{"remote.TestMessage", "actor.PID", "actor.Ping"}
	payloads := [][]byte{{0x0a, 1, 'x'}, {0x0a, 1, 'a', 0x12, 1, 'b'}, {}}
	env := &remote.Envelope{TypeNames: typeNames, Targets: []*actor.PID{wpid}, Senders: []*actor.PID{{}, {Address: "x:1", ID: "s/A"}, wpid}}
	for i := 0; i < 3; i++ {
		env.Targets = append(env.Targets, actor.NewPID(e.Address(), fmt.Sprintf("t/%d", i)))
	}
	toWriter := 0
	for i := range c.Targets {
		tg, ty, sn := c.Targets[i], c.Types[i], c.Senders[i]
		if tg < 0 || tg > 3 || ty < 0 || ty > 2 || sn < 0 || sn > 2 {
			return nil, false, nil
		}
		if tg == 0 {
			toWriter++
		}
		env.Messages = append(env.Messages, &remote.Message{Data: payloads[ty], TypeNameIndex: int32(ty), TargetIndex: int32(tg), SenderIndex: int32(sn)})
	}
	var rerr error
	if p := protect(func() { rerr = remote.VerifReaderReceive(e, &fakeStream{recv: []*remote.Envelope{env}}) }); p != nil {
		return nil, false, fmt.Errorf("streamReader.Receive panicked: %v", p)
	}
	_ = rerr
	if c.Dialling {
		// the connection is made now (a message queued behind the envelope's; by the time the marker
		// below has gone through, the envelope's messages have been through Invoke without a stream)
		e.Send(wpid, remote.VerifConnectMsg{Stream: ss})
	}
	// barrier through the writer's inbox: a genuine delivery request queued behind whatever the
	// envelope put there; when the fake stream has it, everything before it has been through Invoke
	e.Send(wpid, remote.VerifDeliver(actor.NewPID(peer, "x/1"), nil, &remote.TestMessage{Data: []byte("marker")}))
	select {
	case <-ss.got:
	case <-time.After(10 * time.Second):
		pmu.Lock()
		pv := panicked
		pmu.Unlock()
		if pv == nil {
			return nil, false, fmt.Errorf("harness: the marker never went through the writer")
		}
	}
	pmu.Lock()
	pv := panicked
	pmu.Unlock()
	if pv != nil {
		return nil, false, fmt.Errorf("an inbound envelope addressed %d well-formed message(s) to the node's own stream writer (id %q); streamWriter.Invoke panicked on them: %v - on a real node that is the writer's inbox goroutine, and the process exits", toWriter, wpid.ID, pv)
	}
	// messages for the ordinary targets are delivered as addressed
	want := 0
	for _, tg := range c.Targets {
		if tg > 0 {
			want++
		}
	}
	if len(log) != want {
		return nil, false, fmt.Errorf("%d messages were addressed to ordinary actors, %d were delivered", want, len(log))
	}
	if toWriter > 0 {
		labels = append(labels, "message-addressed-to-the-stream-writer")
	}
	return labels, toWriter > 0, nil
}

func TestInternalTargets(t *testing.T) {
	st := vh.Test("TestInternalTargets")
	rapid.Check(t, func(t *rapid.T) {
		n := rapid.IntRange(1, 6).Draw(t, "n")
		c := ITCase{}
		for i := 0; i < n; i++ {
			c.Targets = append(c.Targets, rapid.SampledFrom([]int{0, 0, 1, 2, 3}).Draw(t, "tg"))
			c.Types = append(c.Types, rapid.IntRange(0, 2).Draw(t, "ty"))
			c.Senders = append(c.Senders, rapid.IntRange(0, 2).Draw(t, "sn"))
		}
		c.Dialling = rapid.Bool().Draw(t, "dialling")
		st.Begin(c)
		labels, nt, err := runInternalTargets(c)
		if err != nil {
			st.Fail(c, err)
			t.Fatalf("%v", err)
		}
		if c.Dialling {
			labels = append(labels, "writer-still-dialling")
		}
		st.Done(c, nt, labels...)
	})
}

func init() {
	vh.RegisterReplay("TestInternalTargets", func(raw json.RawMessage) error {
		var c ITCase
		if err := json.Unmarshal(raw, &c); err != nil {
			return err
		}
		_, _, err := runInternalTargets(c)
		return err
	})
}
