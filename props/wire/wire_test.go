// C15: the batched wire encoding round-trips every message to its own target and sender.
// C16: no inbound envelope can crash a node or reach an unaddressed actor.
//
// Both run a real streamWriter / streamReader (constructed through the build-time export
// shim) against a fake DRPC stream that marshals every Envelope with the generated vtproto
// code and unmarshals it again, and a receiving engine that hosts synchronous recording
// Processers.  Everything runs on the test goroutine: a case is a pure function of its JSON.
package wire

import (
	"context"
	"encoding/json"
	"fmt"
	"io"
	"net"
	"testing"
	"time"

	"github.com/anthdm/hollywood/actor"
	"github.com/anthdm/hollywood/remote"
	"google.golang.org/protobuf/proto"
	"google.golang.org/protobuf/reflect/protoreflect"
	"google.golang.org/protobuf/reflect/protoregistry"
	"pgregory.net/rapid"
	"storj.io/drpc"

	"verif/internal/vh"
)

func TestMain(m *testing.M)   { vh.Main(m) }
func TestReplay(t *testing.T) { vh.Replay(t) }

// ---- fake stream / recording processers ----------------------------------------

type fakeStream struct {
	sent []*remote.Envelope // what the writer sent, after a marshal/unmarshal round trip
	recv []*remote.Envelope
}

func (f *fakeStream) Context() context.Context                  { return context.Background() }
func (f *fakeStream) MsgSend(drpc.Message, drpc.Encoding) error { return nil }
func (f *fakeStream) MsgRecv(drpc.Message, drpc.Encoding) error { return nil }
func (f *fakeStream) CloseSend() error                          { return nil }
func (f *fakeStream) Close() error                              { return nil }
func (f *fakeStream) Send(e *remote.Envelope) error {
	b, err := e.MarshalVT()
	if err != nil {
		return err
	}
	d := &remote.Envelope{}
	if err := d.UnmarshalVT(b); err != nil {
		return err
	}
	f.sent = append(f.sent, d)
	return nil
}
func (f *fakeStream) Recv() (*remote.Envelope, error) {
	if len(f.recv) == 0 {
		return nil, io.EOF
	}
	e := f.recv[0]
	f.recv = f.recv[1:]
	return e, nil
}

type fakeConn struct{ net.Conn }

func (fakeConn) SetDeadline(time.Time) error { return nil }

type delivery struct {
	to     string // id of the processer that got it
	pid    *actor.PID
	msg    any
	sender *actor.PID
}

type recProc struct {
	pid *actor.PID
	log *[]delivery
}

func (r recProc) Start()                  {}
func (r recProc) PID() *actor.PID         { return r.pid }
func (r recProc) Invoke([]actor.Envelope) {}
func (r recProc) Shutdown()               {}
func (r recProc) Send(pid *actor.PID, msg any, sender *actor.PID) {
	*r.log = append(*r.log, delivery{to: r.pid.ID, pid: pid, msg: msg, sender: sender})
}

const (
	nTargets = 5  // t/0..t/4
	nWide    = 40 // w/0..w/39: batches that name many distinct targets / senders
)

func targetID(t int) string {
	if t < nTargets {
		return fmt.Sprintf("t/%d", t)
	}
	return fmt.Sprintf("w/%d", t-nTargets)
}

func senderOf(i int) *actor.PID {
	switch {
	case i <= 0:
		return nil
	case i < len(senderPool):
		return &actor.PID{Address: senderPool[i][0], ID: senderPool[i][1]}
	}
	return &actor.PID{Address: "z:9", ID: fmt.Sprintf("s/%d", i)}
}

var (
	engine *actor.Engine
	dlog   []delivery
)

func node() *actor.Engine {
	if engine == nil {
		e, err := actor.NewEngine(actor.NewEngineConfig())
		if err != nil {
			panic("harness: " + err.Error())
		}
		for i := 0; i < nTargets+nWide; i++ {
			e.SpawnProc(recProc{pid: actor.NewPID(e.Address(), targetID(i)), log: &dlog})
		}
		engine = e
	}
	dlog = nil
	return engine
}

func pidStr(p *actor.PID) string {
	if p == nil {
		return "<nil>"
	}
	return fmt.Sprintf("{%q %q}", p.Address, p.ID)
}

func samePID(a, b *actor.PID) bool {
	if a == nil || b == nil {
		return a == nil && b == nil
	}
	return a.Address == b.Address && a.ID == b.ID
}

// ---- C15 -------------------------------------------------------------------------

// sender pool: index 0 = no sender. 1 and 2 are equal PIDs held in distinct objects;
// 3, 4 and 5 differ from 1 only in how address and id split.
var senderPool = [][2]string{
	{}, {"x:1", "s/A"}, {"x:1", "s/A"}, {"x:1s", "/A"}, {"x:1s/", "A"}, {"x:", "1s/A"},
	{"x:1", "s/B"}, {"y:2", "s/A"}, {"local", "t/0"},
}

type WMsg struct {
	T int    `json:"t"` // target t/<T>
	S int    `json:"s"` // index into senderPool, 0 = nil
	K string `json:"k"` // test | pid | ping | pong | badutf8 | nonproto | nilmsg
	D string `json:"d,omitempty"`
	// Same: this delivery carries the very same message value (pointer) as the one before it in the batch
	Same bool `json:"same,omitempty"`
}

type WCase struct {
	Batches [][]WMsg `json:"batches"`
	// Buf: the node is configured WithBufferSize(Buf) (0 = default); what the writer hands over in one
	// batch may be many times that ("mid" = 12 KiB payloads, "big" = 1 MiB)
	Buf int `json:"buf,omitempty"`
}

func (m WMsg) build() (any, bool) {
	switch m.K {
	case "test":
		return &remote.TestMessage{Data: []byte(m.D)}, true
	case "mid":
		b := make([]byte, 12<<10+len(m.D))
		for i := range b {
			b[i] = byte(i * 7)
		}
		copy(b, m.D)
		return &remote.TestMessage{Data: b}, true
	case "big":
		// a payload of 1 MiB and a bit (len(D) decides how much more): a size at which transports like
		// to treat a message specially
		b := make([]byte, 1<<20+len(m.D))
		for i := range b {
			b[i] = byte(i)
		}
		copy(b, m.D)
		return &remote.TestMessage{Data: b}, true
	case "pid":
		return &actor.PID{Address: "a" + m.D, ID: m.D}, true
	case "ping":
		return &actor.Ping{From: &actor.PID{Address: m.D, ID: "p"}}, true
	case "pong":
		return &actor.Pong{From: &actor.PID{Address: "q", ID: m.D}}, true
	case "badutf8": // a proto3 string with invalid UTF-8 does not marshal
		return &actor.PID{Address: "\xff" + m.D, ID: "bad"}, false
	case "nonproto":
		return "plain go string " + m.D, false
	case "nonproto-struct":
		return struct{ A int }{len(m.D)}, false
	}
	panic("harness: unknown kind " + m.K)
}

func runWire(c WCase) (labels []string, nt bool, err error) {
	e := node()
	fs := &fakeStream{}
	if c.Buf < 0 || c.Buf > 8<<20 {
		return nil, false, nil
	}
	w := remote.VerifNewWriterBuf(e, e.Address(), fs, fakeConn{}, c.Buf)
	type want struct {
		target string
		msg    proto.Message
		sender *actor.PID
		at     [2]int
	}
	var wants []want
	maxT, maxS, maxK, bad := 0, 0, 0, 0
	sameN := 0
	hasNil, hasSplit := false, false
	for bi, batch := range c.Batches {
		envs := make([]actor.Envelope, 0, len(batch))
		ts, ss, ks := map[int]bool{}, map[string]bool{}, map[string]bool{}
		var prevMsg any
		var prevOK bool
		for mi, m := range batch {
			if m.T < 0 || m.T >= nTargets+nWide || m.S < 0 || m.S >= len(senderPool)+nWide {
				return nil, false, nil
			}
			msg, ok := m.build()
			if m.Same && mi > 0 {
				// the very same message value as the delivery before (a fan-out, a retry): same pointer
				msg, ok = prevMsg, prevOK
				sameN++
			}
			prevMsg, prevOK = msg, ok
			sender := senderOf(m.S)
			target := actor.NewPID(e.Address(), targetID(m.T))
			envs = append(envs, actor.Envelope{Msg: remote.VerifDeliver(target, sender, msg)})
			if ok {
				wants = append(wants, want{target.ID, msg.(proto.Message), sender, [2]int{bi, mi}})
				ts[m.T], ss[pidStr(sender)], ks[m.K] = true, true, true
				if m.S == 0 {
					hasNil = true
				}
				if m.S >= 3 && m.S <= 5 {
					hasSplit = true
				}
			} else {
				bad++
			}
		}
		maxT, maxS, maxK = max(maxT, len(ts)), max(maxS, len(ss)), max(maxK, len(ks))
		if perr := protect(func() { w.Invoke(envs) }); perr != nil {
			return nil, false, fmt.Errorf("streamWriter.Invoke panicked on batch %d: %v", bi, perr)
		}
	}
	sent := 0
	for _, env := range fs.sent {
		sent += len(env.Messages)
	}
	fs.recv = fs.sent
	var rerr error
	if perr := protect(func() { rerr = remote.VerifReaderReceive(e, fs) }); perr != nil {
		return nil, false, fmt.Errorf("streamReader.Receive panicked on an envelope produced by the writer: %v", perr)
	}
	if rerr != io.EOF && rerr != nil {
		return nil, false, fmt.Errorf("streamReader.Receive rejected an envelope produced by the writer: %v", rerr)
	}
	got := dlog
	for i := 0; i < len(got) || i < len(wants); i++ {
		if i >= len(wants) {
			return nil, false, fmt.Errorf("delivery %d is one too many: %T{%v} to %s (batch encodes %d messages for %d serialisable ones)", i, got[i].msg, got[i].msg, got[i].to, sent, len(wants))
		}
		wnt := wants[i]
		if i >= len(got) {
			return nil, false, fmt.Errorf("message %v (%T to %s) was not delivered: %d deliveries for %d serialisable messages", wnt.at, wnt.msg, wnt.target, len(got), len(wants))
		}
		g := got[i]
		if g.to != wnt.target || g.pid == nil || g.pid.ID != wnt.target {
			return nil, false, fmt.Errorf("delivery %d: message %v addressed to %s arrived at %s (pid %s)", i, wnt.at, wnt.target, g.to, pidStr(g.pid))
		}
		gm, ok := g.msg.(proto.Message)
		if !ok || proto.MessageName(gm) != proto.MessageName(wnt.msg) || !proto.Equal(gm, wnt.msg) {
			return nil, false, fmt.Errorf("delivery %d: message %v payload differs: sent %T{%v}, received %T{%v}", i, wnt.at, wnt.msg, wnt.msg, g.msg, g.msg)
		}
		if !samePID(g.sender, wnt.sender) {
			return nil, false, fmt.Errorf("delivery %d: message %v sent with sender %s arrived with sender %s", i, wnt.at, pidStr(wnt.sender), pidStr(g.sender))
		}
	}
	labels = []string{fmt.Sprintf("batches=%d", len(c.Batches))}
	if c.Buf > 0 {
		labels = append(labels, "configured-buffer-size")
	}
	if sameN > 0 {
		labels = append(labels, "same-message-value-delivered-twice-in-a-row")
	}
	for _, b := range c.Batches {
		sz := 0
		for _, m := range b {
			switch m.K {
			case "mid":
				sz += 12 << 10
			case "big":
				sz += 1 << 20
			}
		}
		if (c.Buf > 0 && sz > c.Buf/2) || sz > 2<<20 {
			labels = append(labels, "batch-larger-than-half-the-buffer")
			break
		}
	}
	if bad > 0 {
		labels = append(labels, "has-unserialisable")
	}
	if hasSplit {
		labels = append(labels, "split-ambiguous-sender")
	}
	if hasNil && maxS >= 2 {
		labels = append(labels, "nil-and-non-nil-sender-in-one-batch")
	}
	if maxT >= 9 {
		labels = append(labels, fmt.Sprintf("distinct-targets-in-one-batch>=%d", min(maxT/9*9, 36)))
	}
	if maxS >= 9 {
		labels = append(labels, fmt.Sprintf("distinct-senders-in-one-batch>=%d", min(maxS/9*9, 36)))
	}
	nt = maxT >= 2 && maxS >= 2 && hasNil && maxK >= 2
	if nt {
		labels = append(labels, "nontrivial")
	}
	return labels, nt, nil
}

func protect(f func()) (perr any) {
	defer func() { perr = recover() }()
	f()
	return nil
}

var kinds = []string{"test", "test", "test", "pid", "ping", "pong", "badutf8", "nonproto", "nonproto-struct"}

func genWire(t *rapid.T) WCase {
	nb := rapid.IntRange(1, 3).Draw(t, "batches")
	c := WCase{}
	for b := 0; b < nb; b++ {
		n := rapid.IntRange(1, 24).Draw(t, "n")
		maxT, maxS := nTargets-1, len(senderPool)-1
		// one batch in four talks to / for many distinct PIDs (the lookup tables of an envelope grow
		// with the batch; nothing in the writer bounds them)
		if rapid.IntRange(0, 3).Draw(t, "wide") == 0 {
			n = rapid.IntRange(8, 96).Draw(t, "wide-n")
			maxT, maxS = nTargets+nWide-1, len(senderPool)+nWide-1
		}
		batch := make([]WMsg, n)
		for i := range batch {
			batch[i] = WMsg{
				T: rapid.IntRange(0, maxT).Draw(t, "t"),
				S: rapid.IntRange(0, maxS).Draw(t, "s"),
				K: rapid.SampledFrom(kinds).Draw(t, "k"),
				D: rapid.StringMatching(`[a-c]{0,3}`).Draw(t, "d"),
			}
			if i > 0 && rapid.IntRange(0, 7).Draw(t, "same") == 0 {
				batch[i].Same = true
			}
		}
		c.Batches = append(c.Batches, batch)
	}
	// one batch in 25 carries one message of a little more than 1 MiB at a generated position
	if rapid.IntRange(0, 24).Draw(t, "bigmsg") == 0 {
		b := rapid.IntRange(0, len(c.Batches)-1).Draw(t, "bigbatch")
		if len(c.Batches[b]) > 0 {
			i := rapid.IntRange(0, len(c.Batches[b])-1).Draw(t, "bigpos")
			c.Batches[b][i].K = "big"
			// ... and now and then three of them in one batch
			if rapid.IntRange(0, 2).Draw(t, "threebig") == 0 {
				for k := 0; k < 2; k++ {
					j := rapid.IntRange(0, len(c.Batches[b])-1).Draw(t, "bigpos2")
					c.Batches[b][j].K = "big"
				}
			}
		}
	}
	// one case in six: a configured buffer size, and payloads of 12 KiB among the messages
	if rapid.IntRange(0, 5).Draw(t, "bufcase") == 0 {
		c.Buf = rapid.SampledFrom([]int{32 << 10, 64 << 10, 1 << 20}).Draw(t, "buf")
		for b := range c.Batches {
			for i := range c.Batches[b] {
				if c.Batches[b][i].K == "test" && rapid.IntRange(0, 2).Draw(t, "mid") == 0 {
					c.Batches[b][i].K = "mid"
				}
			}
		}
	}
	return c
}

func TestRoundTrip(t *testing.T) {
	st := vh.Test("TestRoundTrip").NoJournal()
	rapid.Check(t, func(t *rapid.T) {
		c := genWire(t)
		labels, nt, err := runWire(c)
		if err != nil {
			st.Fail(c, err)
			t.Fatalf("%v", err)
		}
		st.Done(c, nt, labels...)
	})
}

// ---- C16 -------------------------------------------------------------------------

type HPID struct {
	A string `json:"a"`
	I string `json:"i"`
}

type HMsg struct {
	Ty   int32  `json:"ty"`
	Tg   int32  `json:"tg"`
	Sn   int32  `json:"sn"`
	Data []byte `json:"data"`
}

type HEnv struct {
	Types   []string `json:"types"`
	Targets []HPID   `json:"targets"`
	Senders []HPID   `json:"senders"`
	Msgs    []HMsg   `json:"msgs"`
}

type HCase struct {
	Envs []HEnv `json:"envs"`
}

func (h HEnv) build() *remote.Envelope {
	env := &remote.Envelope{TypeNames: h.Types}
	for _, p := range h.Targets {
		env.Targets = append(env.Targets, &actor.PID{Address: p.A, ID: p.I})
	}
	for _, p := range h.Senders {
		env.Senders = append(env.Senders, &actor.PID{Address: p.A, ID: p.I})
	}
	for _, m := range h.Msgs {
		env.Messages = append(env.Messages, &remote.Message{Data: m.Data, TypeNameIndex: m.Ty, TargetIndex: m.Tg, SenderIndex: m.Sn})
	}
	return env
}

// viaWire pushes the envelope through the real encoder and decoder, so that only
// values a network peer can produce reach the reader.
func viaWire(env *remote.Envelope) (*remote.Envelope, error) {
	b, err := env.MarshalVT()
	if err != nil {
		return nil, err
	}
	d := &remote.Envelope{}
	if err := d.UnmarshalVT(b); err != nil {
		return nil, err
	}
	return d, nil
}

type hwant struct {
	env, idx   int
	target     *actor.PID
	tname      string
	msg        proto.Message
	sender     *actor.PID // nil when none / empty PID
	senderFree bool       // sender index out of range: the statement does not say what sender a reader that still delivers would use
	full       bool       // every index in range, type registered, payload decodes
}

func inRange(i int32, n int) bool { return i >= 0 && int(i) < n }

// judge: what may be delivered for this envelope. A message is a candidate when its type
// and target index are in range, the type is registered and the payload decodes.
func judge(ei int, env *remote.Envelope) (cands []hwant, allFull bool, invalid int) {
	allFull = true
	for i, m := range env.Messages {
		if m == nil || !inRange(m.TypeNameIndex, len(env.TypeNames)) || !inRange(m.TargetIndex, len(env.Targets)) {
			allFull = false
			invalid++
			continue
		}
		tname := env.TypeNames[m.TypeNameIndex]
		mt, err := protoregistry.GlobalTypes.FindMessageByName(protoreflect.FullName(tname))
		if err != nil {
			allFull = false
			invalid++
			continue
		}
		pm := mt.New().Interface()
		if err := proto.Unmarshal(m.Data, pm); err != nil {
			allFull = false
			invalid++
			continue
		}
		w := hwant{env: ei, idx: i, target: env.Targets[m.TargetIndex], tname: tname, msg: pm, full: true}
		if len(env.Senders) > 0 {
			if inRange(m.SenderIndex, len(env.Senders)) {
				s := env.Senders[m.SenderIndex]
				if s != nil && (s.Address != "" || s.ID != "") {
					w.sender = s
				}
			} else {
				w.senderFree, w.full = true, false
				allFull = false
				invalid++
			}
		}
		cands = append(cands, w)
	}
	return
}

func matches(g delivery, w hwant) bool {
	if g.pid == nil || w.target == nil || g.pid.ID != w.target.ID || g.to != w.target.ID {
		return false
	}
	gm, ok := g.msg.(proto.Message)
	if !ok || string(proto.MessageName(gm)) != w.tname || !proto.Equal(gm, w.msg) {
		return false
	}
	if w.senderFree {
		return true
	}
	gs := g.sender
	if gs != nil && gs.Address == "" && gs.ID == "" {
		gs = nil
	}
	return samePID(gs, w.sender)
}

func runHostile(envs []*remote.Envelope) (labels []string, nt bool, err error) {
	e := node()
	fs := &fakeStream{recv: envs}
	var rerr error
	if perr := protect(func() { rerr = remote.VerifReaderReceive(e, fs) }); perr != nil {
		return nil, false, fmt.Errorf("streamReader.Receive panicked (on a drpc server goroutine this kills the node): %v", perr)
	}
	got := dlog
	// expected: every envelope before the first one that holds an invalid message is delivered
	// completely; from there on deliveries are an ordered subsequence of the candidates.
	var cands []hwant
	mustUpTo := 0
	broken := false
	invalid := 0
	observable := func(w hwant) bool { // only the recording processers see deliveries
		var n int
		if _, err := fmt.Sscanf(w.target.ID, "t/%d", &n); err == nil && n >= 0 && n < nTargets && w.target.ID == fmt.Sprintf("t/%d", n) {
			return true
		}
		// (the wide population w/0..39 of the C15 cases is registered on the same engine)
		_, err := fmt.Sscanf(w.target.ID, "w/%d", &n)
		return err == nil && n >= 0 && n < nWide && w.target.ID == fmt.Sprintf("w/%d", n)
	}
	total := 0
	for ei, env := range envs {
		cs, allFull, inv := judge(ei, env)
		invalid += inv
		total += len(env.Messages)
		if !allFull {
			broken = true
		}
		for _, w := range cs {
			if !observable(w) {
				continue
			}
			cands = append(cands, w)
			if !broken {
				mustUpTo = len(cands)
			}
		}
	}
	ci := 0
	for gi, g := range got {
		found := false
		for ci < len(cands) {
			w := cands[ci]
			ci++
			if matches(g, w) {
				found = true
				break
			}
			if ci <= mustUpTo {
				return nil, false, fmt.Errorf("well-formed message %d of envelope %d (%s to %s) was skipped or altered: delivery %d is %T{%v} to %s sender %s",
					w.idx, w.env, w.tname, pidStr(w.target), gi, g.msg, g.msg, g.to, pidStr(g.sender))
			}
		}
		if !found {
			return nil, false, fmt.Errorf("delivery %d (%T{%v} to %s, sender %s) is not named by the valid indices of any message in order: an unaddressed actor was reached or a message was duplicated, reordered or altered",
				gi, g.msg, g.msg, g.to, pidStr(g.sender))
		}
	}
	if ci < mustUpTo {
		w := cands[ci]
		return nil, false, fmt.Errorf("well-formed message %d of envelope %d (%s to %s) was not delivered although nothing before it is invalid (reader returned %v)", w.idx, w.env, w.tname, pidStr(w.target), rerr)
	}
	if !broken && rerr != nil && rerr != io.EOF {
		return nil, false, fmt.Errorf("reader ended the stream with %v although every envelope was well-formed", rerr)
	}
	labels = []string{}
	if invalid > 0 {
		labels = append(labels, "has-invalid")
	} else {
		labels = append(labels, "all-valid")
	}
	if len(got) > 0 {
		labels = append(labels, "delivered-some")
	}
	if total == 0 {
		labels = append(labels, "no-messages")
	}
	return labels, invalid > 0, nil
}

var (
	typePool  = []string{"remote.TestMessage", "actor.PID", "actor.Ping", "actor.Pong", "remote.Envelope", "unknown.Type", "", "remote.TestMessage\x00"}
	idxPool   = []int32{-1, -2, 1 << 30, 2147483647, -2147483648, 4, 5, 255, 256}
	validData = [][]byte{
		{}, {0x0a, 0x01, 'x'}, {0x0a, 0x03, 'a', 'b', 'c'}, {0x0a, 0x01, 'l', 0x12, 0x03, 't', '/', '1'},
		{0x0a, 0x05, 0x0a, 0x01, 'q', 0x12, 0x00},
	}
)

func genIdx(t *rapid.T, n int, label string) int32 {
	k := rapid.IntRange(0, 9).Draw(t, label+"-class")
	switch {
	case k <= 6 && n > 0:
		return int32(rapid.IntRange(0, n-1).Draw(t, label))
	case k == 7:
		return int32(n) // one past the end
	case k == 8:
		return rapid.SampledFrom(idxPool).Draw(t, label+"-hostile")
	default:
		return rapid.Int32().Draw(t, label+"-any")
	}
}

func genHostile(t *rapid.T) HCase {
	c := HCase{}
	ne := rapid.IntRange(1, 3).Draw(t, "envs")
	for e := 0; e < ne; e++ {
		h := HEnv{}
		// hostile classes are rarer per message so that long valid prefixes exist too
		clean := rapid.IntRange(0, 3).Draw(t, "clean") == 0
		nty := rapid.IntRange(0, 4).Draw(t, "ntypes")
		for i := 0; i < nty; i++ {
			if clean {
				h.Types = append(h.Types, typePool[rapid.IntRange(0, 3).Draw(t, "type")])
			} else {
				h.Types = append(h.Types, rapid.SampledFrom(typePool).Draw(t, "type"))
			}
		}
		ntg := rapid.IntRange(0, 4).Draw(t, "ntargets")
		for i := 0; i < ntg; i++ {
			id := fmt.Sprintf("t/%d", rapid.IntRange(0, nTargets).Draw(t, "tid")) // t/5 is not registered
			if rapid.IntRange(0, 9).Draw(t, "odd-target") == 0 {
				id = rapid.SampledFrom([]string{"", "t", "t/", "t/1/", "eventstream", "t/01"}).Draw(t, "odd-id")
			}
			h.Targets = append(h.Targets, HPID{rapid.SampledFrom([]string{"local", "", "other:1"}).Draw(t, "taddr"), id})
		}
		nsn := rapid.IntRange(0, 3).Draw(t, "nsenders")
		for i := 0; i < nsn; i++ {
			s := senderPool[rapid.IntRange(0, len(senderPool)-1).Draw(t, "sender")]
			h.Senders = append(h.Senders, HPID{s[0], s[1]})
		}
		nm := rapid.IntRange(0, 6).Draw(t, "nmsgs")
		for i := 0; i < nm; i++ {
			m := HMsg{}
			if clean {
				if nty == 0 || ntg == 0 {
					break
				}
				m.Ty = int32(rapid.IntRange(0, nty-1).Draw(t, "ty"))
				m.Tg = int32(rapid.IntRange(0, ntg-1).Draw(t, "tg"))
				if nsn > 0 {
					m.Sn = int32(rapid.IntRange(0, nsn-1).Draw(t, "sn"))
				}
				m.Data = rapid.SampledFrom(validData).Draw(t, "data")
			} else {
				m.Ty, m.Tg, m.Sn = genIdx(t, nty, "ty"), genIdx(t, ntg, "tg"), genIdx(t, nsn, "sn")
				if rapid.IntRange(0, 3).Draw(t, "data-class") == 0 {
					m.Data = rapid.SliceOfN(rapid.Byte(), 0, 12).Draw(t, "bytes")
				} else {
					m.Data = rapid.SampledFrom(validData).Draw(t, "data")
				}
			}
			h.Msgs = append(h.Msgs, m)
		}
		c.Envs = append(c.Envs, h)
	}
	return c
}

func runHostileCase(c HCase) ([]string, bool, error) {
	var envs []*remote.Envelope
	for _, h := range c.Envs {
		env, err := viaWire(h.build())
		if err != nil {
			// the encoder or decoder refuses it: such an envelope never reaches the reader
			return []string{"not-encodable"}, false, nil
		}
		envs = append(envs, env)
	}
	return runHostile(envs)
}

func TestHostileEnvelope(t *testing.T) {
	st := vh.Test("TestHostileEnvelope").NoJournal()
	rapid.Check(t, func(t *rapid.T) {
		c := genHostile(t)
		labels, nt, err := runHostileCase(c)
		if err != nil {
			st.Fail(c, err)
			t.Fatalf("%v", err)
		}
		st.Done(c, nt, labels...)
	})
}

// TestHostileEnum enumerates completely: one message, tables of size 0..2, every index
// from a boundary set, for every type/payload class.
func TestHostileEnum(t *testing.T) {
	st := vh.Test("TestHostileEnum").NoJournal()
	idx := []int32{-2147483648, -1, 0, 1, 2, 3, 2147483647}
	types := [][]string{{}, {"remote.TestMessage"}, {"remote.TestMessage", "unknown.Type"}}
	datas := [][]byte{{}, {0x0a, 0x01, 'x'}, {0x0a, 0x05, 'x'}}
	n := 0
	for _, ty := range types {
		for ntg := 0; ntg <= 2; ntg++ {
			for nsn := 0; nsn <= 2; nsn++ {
				for _, a := range idx {
					for _, b := range idx {
						for _, s := range idx {
							for _, d := range datas {
								h := HEnv{Types: ty, Msgs: []HMsg{{Ty: a, Tg: b, Sn: s, Data: d}}}
								for i := 0; i < ntg; i++ {
									h.Targets = append(h.Targets, HPID{"local", fmt.Sprintf("t/%d", i)})
								}
								for i := 0; i < nsn; i++ {
									h.Senders = append(h.Senders, HPID{"x:1", fmt.Sprintf("s/%d", i)})
								}
								// followed by a well-formed envelope: it may or may not be read
								c := HCase{Envs: []HEnv{h}}
								labels, nt, err := runHostileCase(c)
								if err != nil {
									st.Fail(c, err)
									t.Fatalf("%v", err)
								}
								st.Done(c, nt, labels...)
								n++
							}
						}
					}
				}
			}
		}
	}
	st.Set("exhaustive", true)
	st.Set("exhaustive_space", fmt.Sprintf("%d single-message envelopes: 3 type tables x 0..2 targets x 0..2 senders x 7^3 index triples x 3 payloads", n))
}

// FuzzEnvelopeBytes: whatever byte string the envelope decoder accepts goes to the reader.
func FuzzEnvelopeBytes(f *testing.F) {
	st := vh.Test("FuzzEnvelopeBytes").NoJournal()
	seed := func(h HEnv) {
		b, err := h.build().MarshalVT()
		if err == nil {
			f.Add(b)
		}
	}
	seed(HEnv{Types: []string{"remote.TestMessage"}, Targets: []HPID{{"local", "t/1"}}, Msgs: []HMsg{{Data: []byte{0x0a, 1, 'x'}}}})
	seed(HEnv{Types: []string{"remote.TestMessage", "actor.PID"}, Targets: []HPID{{"local", "t/1"}, {"local", "t/2"}}, Senders: []HPID{{}, {"x:1", "s/A"}},
		Msgs: []HMsg{{Ty: 1, Tg: 1, Sn: 1, Data: []byte{0x0a, 1, 'l'}}, {Ty: 0, Tg: 0, Sn: 0}}})
	seed(HEnv{Types: []string{"remote.TestMessage"}, Targets: []HPID{{"local", "t/1"}}, Msgs: []HMsg{{Ty: -1}}})
	seed(HEnv{Types: []string{"remote.TestMessage"}, Targets: []HPID{{"local", "t/1"}}, Msgs: []HMsg{{Tg: 2147483647}}})
	seed(HEnv{Types: []string{"x"}, Msgs: []HMsg{{Sn: -2147483648}}})
	f.Add([]byte{})
	f.Add([]byte{0x22, 0x00})
	f.Fuzz(func(t *testing.T, b []byte) {
		env := &remote.Envelope{}
		if err := env.UnmarshalVT(b); err != nil {
			return
		}
		if _, _, err := runHostile([]*remote.Envelope{env}); err != nil {
			c := map[string]any{"bytes": b}
			st.Fail(c, err)
			t.Fatalf("%v", err)
		}
	})
}

func init() {
	vh.RegisterReplay("TestRoundTrip", func(raw json.RawMessage) error {
		var c WCase
		if err := json.Unmarshal(raw, &c); err != nil {
			return err
		}
		_, _, err := runWire(c)
		return err
	})
	h := func(raw json.RawMessage) error {
		var c HCase
		if err := json.Unmarshal(raw, &c); err != nil {
			return err
		}
		_, _, err := runHostileCase(c)
		return err
	}
	vh.RegisterReplay("TestHostileEnvelope", h)
	vh.RegisterReplay("TestHostileEnum", h)
	vh.RegisterReplay("FuzzEnvelopeBytes", func(raw json.RawMessage) error {
		var c struct {
			Bytes []byte `json:"bytes"`
		}
		if err := json.Unmarshal(raw, &c); err != nil {
			return err
		}
		env := &remote.Envelope{}
		if err := env.UnmarshalVT(c.Bytes); err != nil {
			return nil
		}
		_, _, err := runHostile([]*remote.Envelope{env})
		return err
	})
}
