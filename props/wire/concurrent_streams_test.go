// C16/C15 with several inbound streams at once: a node has ONE stream reader, and every peer that
// connects is served by a Receive call on it, on a goroutine of its own.  2..4 peers stream generated
// envelopes with different type tables, targets and senders at the same time; nothing one stream
// carries may leak into what another stream delivers.
package wire

import (
	"encoding/json"
	"errors"
	"fmt"
	"io"
	"sync"
	"testing"

	"github.com/anthdm/hollywood/actor"
	"github.com/anthdm/hollywood/remote"
	"pgregory.net/rapid"

	"verif/internal/vh"
)

type CSCase struct {
	Streams [][]int `json:"streams"` // per peer: per envelope its shape 0..3 (which types it carries, in which table order)
	Msgs    int     `json:"msgs"`    // messages per envelope
}

type lockedProc struct {
	pid *actor.PID
	mu  *sync.Mutex
	log *[]delivery
}

func (r lockedProc) Start()                  {}
func (r lockedProc) PID() *actor.PID         { return r.pid }
func (r lockedProc) Shutdown()               {}
func (r lockedProc) Invoke([]actor.Envelope) {}
func (r lockedProc) Send(pid *actor.PID, msg any, sender *actor.PID) {
	r.mu.Lock()
	*r.log = append(*r.log, delivery{to: r.pid.ID, pid: pid, msg: msg, sender: sender})
	r.mu.Unlock()
}

func runConcurrentStreams(c CSCase) error {
	if len(c.Streams) < 2 || len(c.Streams) > 4 || c.Msgs < 1 || c.Msgs > 8 {
		return nil
	}
	e, err := actor.NewEngine(actor.NewEngineConfig())
	if err != nil {
		return fmt.Errorf("harness: %v", err)
	}
	var mu sync.Mutex
	logs := make([][]delivery, len(c.Streams))
	for p := range c.Streams {
		e.SpawnProc(lockedProc{pid: actor.NewPID(e.Address(), fmt.Sprintf("peer/%d", p)), mu: &mu, log: &logs[p]})
	}
	rd := remote.VerifNewReader(e)
	// per peer: a stream of envelopes; message k of envelope j of peer p is a TestMessage "p:j:k" or
	// a PID{p:j:k}, its target peer/<p>, its sender {"peer<p>", "s/<j>"}
	type wantMsg struct {
		isPID bool
		text  string
		snd   string
	}
	wants := make([][]wantMsg, len(c.Streams))
	streams := make([]*fakeStream, len(c.Streams))
	for p, envs := range c.Streams {
		if len(envs) < 1 || len(envs) > 200 {
			return nil
		}
		fs := &fakeStream{}
		for j, shape := range envs {
			if shape < 0 || shape > 3 {
				return nil
			}
			env := &remote.Envelope{
				Targets: []*actor.PID{actor.NewPID(e.Address(), fmt.Sprintf("peer/%d", p))},
				Senders: []*actor.PID{actor.NewPID(fmt.Sprintf("peer%d", p), fmt.Sprintf("s/%d", j))},
			}
			tm, pm := "remote.TestMessage", "actor.PID"
			switch shape {
			case 0:
				env.TypeNames = []string{tm}
			case 1:
				env.TypeNames = []string{pm}
			case 2:
				env.TypeNames = []string{tm, pm}
			case 3:
				env.TypeNames = []string{pm, tm}
			}
			for k := 0; k < c.Msgs; k++ {
				ti := k % len(env.TypeNames)
				text := fmt.Sprintf("%d:%d:%d", p, j, k)
				var data []byte
				isPID := env.TypeNames[ti] == pm
				if isPID {
					data, _ = (&actor.PID{Address: "x", ID: text}).MarshalVT()
				} else {
					data, _ = (&remote.TestMessage{Data: []byte(text)}).MarshalVT()
				}
				env.Messages = append(env.Messages, &remote.Message{Data: data, TypeNameIndex: int32(ti), TargetIndex: 0, SenderIndex: 0})
				wants[p] = append(wants[p], wantMsg{isPID, text, fmt.Sprintf("peer%d|s/%d", p, j)})
			}
			fs.recv = append(fs.recv, env)
		}
		streams[p] = fs
	}
	var wg sync.WaitGroup
	errs := make([]string, len(streams))
	start := make(chan struct{})
	for p := range streams {
		wg.Add(1)
		go func(p int) {
			defer wg.Done()
			defer func() {
				if v := recover(); v != nil {
					errs[p] = fmt.Sprintf("the Receive call that serves peer %d panicked (on a drpc server goroutine this ends the process): %v", p, v)
				}
			}()
			<-start
			if err := rd.Receive(streams[p]); err != nil && !errors.Is(err, io.EOF) {
				errs[p] = fmt.Sprintf("the stream of peer %d, which carries only well-formed envelopes, was ended with: %v", p, err)
			}
		}(p)
	}
	close(start)
	wg.Wait()
	for _, m := range errs {
		if m != "" {
			return fmt.Errorf("%s", m)
		}
	}
	mu.Lock()
	defer mu.Unlock()
	for p := range streams {
		got := logs[p]
		if len(got) != len(wants[p]) {
			return fmt.Errorf("peer %d streamed %d messages to peer/%d while %d other peers were streaming too; %d were delivered there", p, len(wants[p]), p, len(streams)-1, len(got))
		}
		for i, d := range got {
			w := wants[p][i]
			var text string
			var isPID bool
			switch m := d.msg.(type) {
			case *remote.TestMessage:
				text = string(m.Data)
			case *actor.PID:
				text, isPID = m.ID, true
			default:
				return fmt.Errorf("peer %d, delivery %d: a %T was delivered", p, i, d.msg)
			}
			snd := "<nil>"
			if d.sender != nil {
				snd = d.sender.Address + "|" + d.sender.ID
			}
			if isPID != w.isPID || text != w.text || snd != w.snd {
				return fmt.Errorf("peer %d, delivery %d: sent (pid=%v) %q from %s, delivered (pid=%v) %q from %s - while %d other streams were being read by the same node", p, i, w.isPID, w.text, w.snd, isPID, text, snd, len(streams)-1)
			}
		}
	}
	return nil
}

func TestConcurrentStreams(t *testing.T) {
	st := vh.Test("TestConcurrentStreams")
	rapid.Check(t, func(t *rapid.T) {
		c := CSCase{Msgs: rapid.IntRange(1, 6).Draw(t, "msgs")}
		n := rapid.IntRange(2, 4).Draw(t, "peers")
		for p := 0; p < n; p++ {
			c.Streams = append(c.Streams, rapid.SliceOfN(rapid.IntRange(0, 3), 20, 120).Draw(t, "envs"))
		}
		st.Begin(c)
		if err := runConcurrentStreams(c); err != nil {
			if len(err.Error()) > 8 && err.Error()[:8] == "harness:" {
				t.Fatalf("%v", err)
			}
			st.Fail(c, err)
			t.Fatalf("%v", err)
		}
		st.Done(c, true, fmt.Sprintf("peers=%d", n))
	})
}

func init() {
	vh.RegisterReplay("TestConcurrentStreams", func(raw json.RawMessage) error {
		var c CSCase
		if err := json.Unmarshal(raw, &c); err != nil {
			return err
		}
		for i := 0; i < 20; i++ {
			if err := runConcurrentStreams(c); err != nil {
				return err
			}
		}
		return nil
	})
}
