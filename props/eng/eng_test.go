// C01: local delivery is exactly-once, content-faithful and order-preserving.
// C10: one live actor per ID; duplicate spawns change nothing.
// C11: request/response: correlated, at most once, bounded by the timeout.
//
// Real goroutines on the real engine.  The oracles only demand what holds for every
// interleaving (per-sender order, exact multiset, counts), so a schedule can never turn a
// correct run into a failure; bounded waits (30 s) only ever yield "inconclusive".
package eng

import (
	"context"
	"encoding/json"
	"errors"
	"fmt"
	"math"
	"sort"
	"strings"
	"sync"
	"sync/atomic"
	"testing"
	"time"

	"github.com/anthdm/hollywood/actor"
	"pgregory.net/rapid"

	"verif/internal/vh"
)

func TestMain(m *testing.M)   { vh.Main(m) }
func TestReplay(t *testing.T) { vh.Replay(t) }

var errInconclusive = errors.New("harness: bounded wait expired")

const wait = 30 * time.Second

func waitCh(ch <-chan struct{}, what string) error {
	select {
	case <-ch:
		return nil
	case <-time.After(wait):
		return fmt.Errorf("%w: %s", errInconclusive, what)
	}
}

func waitChD(ch <-chan struct{}, d time.Duration, what string) error {
	select {
	case <-ch:
		return nil
	case <-time.After(d):
		return fmt.Errorf("%w: %s", errInconclusive, what)
	}
}

func check(t *rapid.T, st *vh.T, c any, run func() (map[string]int, error), nt func(map[string]int) bool) {
	st.Begin(c)
	feat, err := run()
	if errors.Is(err, errInconclusive) || (err != nil && strings.HasPrefix(err.Error(), "harness: ")) {
		if st.Failed() > 0 {
			return
		}
		t.Fatalf("harness: %v", err)
	}
	if err != nil {
		st.Fail(c, err)
		t.Fatalf("%v", err)
	}
	var labels []string
	for k := range feat {
		labels = append(labels, k)
	}
	st.Done(c, nt(feat), labels...)
}

// monitor logs events of interest; barrier = sentinel through the FIFO event stream.
type monitor struct {
	mu    sync.Mutex
	cond  *sync.Cond
	dups  []string // ids of ActorDuplicateIdEvent
	dls   []actor.DeadLetterEvent
	sents int
	onDL  func(actor.DeadLetterEvent) // called by the monitor actor for every dead letter (optional)
}

type sentinel struct{ N int }

func newMonitor(e *actor.Engine) *monitor {
	m := &monitor{}
	m.cond = sync.NewCond(&m.mu)
	pid := e.SpawnFunc(func(c *actor.Context) {
		m.mu.Lock()
		defer m.mu.Unlock()
		switch ev := c.Message().(type) {
		case actor.ActorDuplicateIdEvent:
			m.dups = append(m.dups, ev.PID.GetID())
		case actor.DeadLetterEvent:
			m.dls = append(m.dls, ev)
			if m.onDL != nil {
				m.onDL(ev)
			}
		case sentinel:
			m.sents = ev.N
			m.cond.Broadcast()
		}
	}, "monitor")
	e.Subscribe(pid)
	return m
}

func (m *monitor) barrier(e *actor.Engine, n int) error {
	e.BroadcastEvent(sentinel{n})
	tm := time.AfterFunc(wait, func() { m.mu.Lock(); m.cond.Broadcast(); m.mu.Unlock() })
	defer tm.Stop()
	deadline := time.Now().Add(wait)
	m.mu.Lock()
	defer m.mu.Unlock()
	for m.sents < n {
		if time.Now().After(deadline) {
			return fmt.Errorf("%w: monitor never saw sentinel %d", errInconclusive, n)
		}
		m.cond.Wait()
	}
	return nil
}

// =============================== C01 ====================================================

type DCase struct {
	Inbox   int    `json:"inbox"`     // initial inbox size
	Senders int    `json:"senders"`   // goroutines
	PhaseA  []int  `json:"phase_a"`   // messages per sender before the first gate is released
	PhaseB  []int  `json:"phase_b"`   // messages per sender after it
	Gate1   int    `json:"gate1"`     // the receiver blocks when it has handled this many messages, until phase A is sent
	Gate2   int    `json:"gate2"`     // and again (Gate1+Gate2), until phase B is sent
	Actor   []bool `json:"via_actor"` // sender i sends from inside an actor (Context.Send) instead of a plain goroutine
	// DupSpawn: between the two phases somebody spawns an actor under the target's kind and id again.
	// That must change nothing (C10); what matters here is that the target keeps receiving (C01).
	DupSpawn bool `json:"dup_spawn,omitempty"`
	// Neighbour: between the two phases another actor of the target's kind is spawned and stopped
	// again.  Its id relates to the target's ("10") as a prefix ("1"), an extension ("100"), a path
	// below it ("10/0") or not at all ("2"); the life of one actor is nothing to the deliveries of another.
	Neighbour string `json:"neighbour,omitempty"`
	// Via (per sender, optional): "" = Engine.Send / SendWithSender (or Context.Send when via_actor),
	// "local" = Engine.SendLocal, "forward" = the messages are sent to a relay actor that hands each on
	// with Context.Forward (the relay is then the sender the target sees)
	Via []string `json:"via,omitempty"`
}

type dmsg struct{ G, Seq int }
type final struct{}

type got struct {
	m      dmsg
	sender *actor.PID
}

func runDelivery(c DCase) (map[string]int, error) {
	n := c.Senders
	if n < 1 || n > 8 || len(c.PhaseA) != n || len(c.PhaseB) != n || len(c.Actor) != n || c.Inbox < 1 {
		return nil, nil
	}
	feat := map[string]int{}
	e, err := actor.NewEngine(actor.NewEngineConfig())
	if err != nil {
		return nil, fmt.Errorf("harness: %v", err)
	}
	var (
		mu      sync.Mutex
		log     []got
		foreign []string
		gate1   = make(chan struct{})
		gate2   = make(chan struct{})
		done    = make(chan struct{})
	)
	count := 0
	var inRecv atomic.Int32
	target := e.SpawnFunc(func(ctx *actor.Context) {
		inRecv.Add(1)
		defer inRecv.Add(-1)
		switch m := ctx.Message().(type) {
		case actor.Initialized, actor.Started, actor.Stopped:
		case dmsg:
			mu.Lock()
			log = append(log, got{m, ctx.Sender()})
			mu.Unlock()
			count++
			if count == c.Gate1 {
				<-gate1
			}
			if count == c.Gate1+c.Gate2 {
				<-gate2
			}
		case final:
			close(done)
		default:
			mu.Lock()
			foreign = append(foreign, fmt.Sprintf("%T", m))
			mu.Unlock()
		}
	}, "target", actor.WithInboxSize(c.Inbox), actor.WithID("10"))

	senderPID := func(g int) *actor.PID {
		if g == 0 {
			return nil // sender 0 sends without a sender
		}
		return actor.NewPID("local", fmt.Sprintf("sender/%d", g))
	}
	// relay actors: "from one actor"
	type burst struct {
		from, to int
		done     chan struct{}
	}
	via := func(g int) string {
		if g < len(c.Via) {
			return c.Via[g]
		}
		return ""
	}
	relays := make([]*actor.PID, n)
	fwd := make([]*actor.PID, n)
	for g := 0; g < n; g++ {
		if via(g) == "forward" {
			fwd[g] = e.SpawnFunc(func(ctx *actor.Context) {
				switch m := ctx.Message().(type) {
				case dmsg:
					ctx.Forward(target)
				case chan struct{}:
					close(m)
				}
			}, "forwarder", actor.WithID(fmt.Sprint(g)))
			feat["sent-through-Context.Forward"]++
			continue
		}
		if via(g) == "local" {
			feat["sent-through-SendLocal"]++
		}
		if c.Actor[g] {
			g := g
			relays[g] = e.SpawnFunc(func(ctx *actor.Context) {
				if b, ok := ctx.Message().(burst); ok {
					for s := b.from; s < b.to; s++ {
						ctx.Send(target, dmsg{g, s})
					}
					close(b.done)
				}
			}, "sender", actor.WithID(fmt.Sprint(g)))
			feat["sender-is-an-actor"]++
		}
	}
	phase := func(from func(g int) int, to func(g int) int) error {
		var wg sync.WaitGroup
		start := make(chan struct{})
		errs := make(chan error, n)
		for g := 0; g < n; g++ {
			wg.Add(1)
			go func(g int) {
				defer wg.Done()
				<-start
				if relays[g] != nil {
					b := burst{from(g), to(g), make(chan struct{})}
					e.Send(relays[g], b)
					if err := waitCh(b.done, "relay actor did not finish its burst"); err != nil {
						errs <- err
					}
					return
				}
				if fwd[g] != nil {
					for s := from(g); s < to(g); s++ {
						e.Send(fwd[g], dmsg{g, s})
					}
					// the phase is over when the forwarder has handed everything on
					fin := make(chan struct{})
					e.Send(fwd[g], fin)
					if err := waitCh(fin, "forwarder actor did not finish"); err != nil {
						errs <- err
					}
					return
				}
				for s := from(g); s < to(g); s++ {
					switch p := senderPID(g); {
					case via(g) == "local":
						e.SendLocal(target, dmsg{g, s}, p)
					case p != nil:
						e.SendWithSender(target, dmsg{g, s}, p)
					default:
						e.Send(target, dmsg{g, s})
					}
				}
			}(g)
		}
		close(start)
		wg.Wait()
		select {
		case err := <-errs:
			return err
		default:
			return nil
		}
	}
	if err := phase(func(int) int { return 0 }, func(g int) int { return c.PhaseA[g] }); err != nil {
		return nil, err
	}
	close(gate1)
	if c.DupSpawn {
		ran := make(chan struct{}, 1)
		e.Spawn(func() actor.Receiver { ran <- struct{}{}; return recv(func(*actor.Context) {}) }, "target", actor.WithID("10"), actor.WithInboxSize(c.Inbox))
		select {
		case <-ran:
			return nil, fmt.Errorf("a second Spawn under the id of the live target ran its Producer")
		default:
		}
		feat["duplicate-spawn-over-the-live-target"]++
	}
	if c.Neighbour != "" {
		if c.Neighbour == "10" || len(c.Neighbour) > 8 {
			return nil, nil
		}
		nb := e.SpawnFunc(func(*actor.Context) {}, "target", actor.WithID(c.Neighbour))
		if err := waitCh(e.Poison(nb).Done(), "poison of the neighbour not done"); err != nil {
			return nil, err
		}
		feat["neighbour-with-a-related-id-came-and-went"]++
	}
	if err := phase(func(g int) int { return c.PhaseA[g] }, func(g int) int { return c.PhaseA[g] + c.PhaseB[g] }); err != nil {
		return nil, err
	}
	close(gate2)
	e.Send(target, final{})
	if err := waitChD(done, 5*time.Second, ""); err != nil {
		// Slow, or lost?  Every send has returned, both gates are open.  Progress is measured against the
		// engine itself instead of the clock: a bystander actor answers 300 requests, one after the other,
		// all issued after the final marker was sent.  If the target - a runnable actor with messages in
		// its inbox - is not inside Receive and has still not reached the marker after that (and 2 more
		// seconds), the messages are not going to be handled: they are lost (C01), or the actor rests
		// with a non-empty inbox (C03).
		by := e.SpawnFunc(func(ctx *actor.Context) {
			if _, ok := ctx.Message().(int); ok {
				ctx.Respond("pong")
			}
		}, "bystander")
		for i := 0; i < 300; i++ {
			if r, rerr := e.Request(by, i, wait).Result(); rerr != nil || r != "pong" {
				return nil, fmt.Errorf("%w: the bystander did not answer either (%v)", errInconclusive, rerr)
			}
		}
		if waitChD(done, 2*time.Second, "") == nil {
			e.Poison(by)
		} else {
			mu.Lock()
			k := len(log)
			mu.Unlock()
			total := 0
			for g := 0; g < n; g++ {
				total += c.PhaseA[g] + c.PhaseB[g]
			}
			if inRecv.Load() != 0 {
				return nil, fmt.Errorf("%w: the target is still inside Receive (handled %d of %d)", errInconclusive, k, total)
			}
			return nil, fmt.Errorf("every sender has returned, the gates are open, the target is not inside Receive, and a bystander actor on the same engine has answered 300 requests issued after the final marker was sent - yet the target has handled only %d of the %d messages sent to it and not the marker: messages sent to a live actor are not being handed to Receive", k, total)
		}
	}
	mu.Lock()
	defer mu.Unlock()
	if len(foreign) > 0 {
		return nil, fmt.Errorf("the receiver saw messages nobody sent: %v", foreign)
	}
	next := make([]int, n)
	total := 0
	for i, r := range log {
		g := r.m.G
		if g < 0 || g >= n {
			return nil, fmt.Errorf("delivery %d: message %+v was never sent", i, r.m)
		}
		if r.m.Seq != next[g] {
			return nil, fmt.Errorf("delivery %d: sender %d: got its message #%d, expected #%d next (lost, duplicated or reordered; inbox size %d)", i, g, r.m.Seq, next[g], c.Inbox)
		}
		next[g]++
		want := senderPID(g)
		if relays[g] != nil {
			want = relays[g]
		}
		if fwd[g] != nil {
			want = fwd[g]
		}
		if (want == nil) != (r.sender == nil) || (want != nil && !want.Equals(r.sender)) {
			return nil, fmt.Errorf("delivery %d: message %+v sent with sender %v arrived with sender %v", i, r.m, want, r.sender)
		}
	}
	for g := 0; g < n; g++ {
		w := c.PhaseA[g] + c.PhaseB[g]
		total += w
		if next[g] != w {
			return nil, fmt.Errorf("sender %d: %d of its %d messages were delivered although the final marker, sent after all of them, was", g, next[g], w)
		}
	}
	backlogA := 0
	for g := 0; g < n; g++ {
		backlogA += c.PhaseA[g]
	}
	if c.Gate1 > 0 && backlogA-c.Gate1 >= c.Inbox {
		feat["inbox-grew-behind-a-blocked-receiver"]++
	}
	if c.Gate1 > 1 && c.Gate2 > 0 && backlogA-c.Gate1 >= 1 && total-c.Gate1-c.Gate2 > c.Inbox {
		feat["grew-while-wrapped"]++
	}
	if total-c.Gate1 > 4096 || backlogA-c.Gate1 > 4096 {
		feat["backlog-exceeds-one-batch"]++
	}
	if n >= 2 {
		feat["concurrent-senders"]++
	}
	return feat, nil
}

func genDelivery(t *rapid.T) DCase {
	c := DCase{Senders: rapid.IntRange(1, 8).Draw(t, "senders")}
	c.Inbox = rapid.SampledFrom([]int{1, 1, 2, 2, 3, 4, 5, 8, 16, 64, 1024}).Draw(t, "inbox")
	size := rapid.IntRange(0, 119).Draw(t, "big")
	lo, hi := 0, 40
	switch {
	case size < 3:
		hi = 1500
	case size == 3:
		// one backlog that spans more than one batch of 4096 (messageBatchSize): the receiver is
		// blocked while 4097..9000 messages pile up behind it, so PopN returns a full batch and the
		// ring grows by doubling several times while partly consumed
		c.Senders = rapid.IntRange(1, 3).Draw(t, "senders_big")
		lo, hi = 4097/c.Senders+1, 9000/c.Senders
	}
	for g := 0; g < c.Senders; g++ {
		c.PhaseA = append(c.PhaseA, rapid.IntRange(lo, hi).Draw(t, "a"))
		c.PhaseB = append(c.PhaseB, rapid.IntRange(0, hi).Draw(t, "b"))
		c.Actor = append(c.Actor, rapid.IntRange(0, 3).Draw(t, "actor") == 0)
		c.Via = append(c.Via, rapid.SampledFrom([]string{"", "", "", "", "local", "forward"}).Draw(t, "via"))
	}
	c.DupSpawn = rapid.IntRange(0, 3).Draw(t, "dupspawn") == 0
	c.Neighbour = rapid.SampledFrom([]string{"", "", "", "1", "1", "100", "10/0", "2"}).Draw(t, "neighbour")
	c.Gate1 = rapid.IntRange(0, 6).Draw(t, "gate1")
	c.Gate2 = rapid.IntRange(0, 6).Draw(t, "gate2")
	return c
}

func TestDelivery(t *testing.T) {
	st := vh.Test("TestDelivery")
	rapid.Check(t, func(t *rapid.T) {
		c := genDelivery(t)
		check(t, st, c, func() (map[string]int, error) { return runDelivery(c) }, func(f map[string]int) bool {
			return f["concurrent-senders"] > 0 && f["inbox-grew-behind-a-blocked-receiver"] > 0
		})
	})
}

// =============================== C10 ====================================================

type SOp struct {
	K       string `json:"k"` // spawn burst stop poison dupover
	ID      int    `json:"id"`
	Child   bool   `json:"child,omitempty"`
	G       int    `json:"g,omitempty"`
	ID2     int    `json:"id2,omitempty"` // burst: second id spawned concurrently by G2 goroutines
	G2      int    `json:"g2,omitempty"`
	Backlog int    `json:"backlog,omitempty"`
	// stillborn: the actor is spawned WithMaxRestarts(0) and panics in this lifecycle handler
	// ("Initialized" | "Started"), so it has already stopped when Spawn returns
	DiesIn string `json:"dies_in,omitempty"`
	// Poisoned (dupover): the duplicates are spawned while the incumbent is draining the messages queued
	// behind a graceful Poison - it is still live, still registered, still owns its id
	Poisoned bool `json:"poisoned,omitempty"`
	// slowstop: the actor is poisoned and its Stopped handler blocks: while it is unregistered but has not
	// finished Stopped, Registry.GetPID and Context.GetPID (asked from its parent / another actor) are nil
	// mass: N actors m/0..m/N-1 are spawned, all stopped, and none may remain registered (N > 1024)
	N int `json:"n,omitempty"`
}

type SCase struct {
	Ops []SOp `json:"ops"`
}

type gate struct{ ch chan struct{} }
type gateIn struct {
	ch chan struct{}
	in chan struct{} // closed when the receiver has entered the gate
}

var closedCh = func() chan struct{} { c := make(chan struct{}); close(c); return c }()

type umsg struct{ N int }
type mark struct{ ch chan struct{} }

type spawnHarness struct {
	e        *actor.Engine
	mu       sync.Mutex
	calls    map[string]int
	logs     map[string][]string // id -> "inc:N"
	parent   *actor.PID
	diesIn   map[string]string  // id -> lifecycle handler in which the next incarnation panics
	stopGate map[string]*gateIn // id -> gate entered by the Stopped handler of the current incarnation
}

func (h *spawnHarness) producer(id string) actor.Producer {
	return func() actor.Receiver {
		h.mu.Lock()
		h.calls[id]++
		inc := h.calls[id]
		dies := h.diesIn[id]
		delete(h.diesIn, id)
		h.mu.Unlock()
		return recv(func(c *actor.Context) {
			switch m := c.Message().(type) {
			case actor.Initialized:
				if dies == "Initialized" {
					panic("generated panic in Initialized")
				}
			case actor.Started:
				if dies == "Started" {
					panic("generated panic in Started")
				}
			case actor.Stopped:
				h.mu.Lock()
				g := h.stopGate[id]
				delete(h.stopGate, id)
				h.mu.Unlock()
				if g != nil {
					close(g.in)
					<-g.ch
				}
			case func(*actor.Context):
				m(c)
			case gate:
				<-m.ch
			case gateIn:
				close(m.in)
				<-m.ch
			case umsg:
				h.mu.Lock()
				h.logs[id] = append(h.logs[id], fmt.Sprintf("%d:%d", inc, m.N))
				h.mu.Unlock()
			case mark:
				close(m.ch)
			}
		})
	}
}

type recv func(*actor.Context)

func (r recv) Receive(c *actor.Context) { r(c) }

// subIDs: the ids of the population are strings that relate to each other the way real ids do:
// one is a prefix of another ("1", "10", "1x"), one looks like a path below another ("1/0").
var subIDs = []string{"1", "10", "2", "1x", "1/0"}

func idOf(id int, child bool) (kind, sub, full string) {
	sub = subIDs[id%len(subIDs)]
	if child {
		return "par/0/kid", sub, "par/0/kid/" + sub
	}
	return "a", sub, "a/" + sub
}

// spawn one actor under the given id, top level or as a child of the parent actor.
func (h *spawnHarness) spawn(id int, child bool, more ...actor.OptFunc) error {
	kind, sub, full := idOf(id, child)
	opts := append([]actor.OptFunc{actor.WithID(sub)}, more...)
	if !child {
		h.e.Spawn(h.producer(full), kind, opts...)
		return nil
	}
	done := make(chan struct{})
	h.e.Send(h.parent, func(c *actor.Context) {
		c.SpawnChild(h.producer(full), "kid", opts...)
		close(done)
	})
	return waitCh(done, "parent did not spawn the child")
}

func runSpawns(c SCase) (map[string]int, error) {
	feat := map[string]int{}
	e, err := actor.NewEngine(actor.NewEngineConfig())
	if err != nil {
		return nil, fmt.Errorf("harness: %v", err)
	}
	h := &spawnHarness{e: e, calls: map[string]int{}, logs: map[string][]string{}, diesIn: map[string]string{}, stopGate: map[string]*gateIn{}}
	mon := newMonitor(e)
	h.parent = e.SpawnFunc(func(c *actor.Context) {
		if f, ok := c.Message().(func(*actor.Context)); ok {
			f(c)
		}
	}, "par", actor.WithID("0"))
	type st struct {
		live    bool
		calls   int
		stopped int
	}
	model := map[string]*st{}
	get := func(full string) *st {
		if model[full] == nil {
			model[full] = &st{}
		}
		return model[full]
	}
	nbar := 0
	for oi, op := range c.Ops {
		if op.ID < 0 || op.ID >= len(subIDs) || op.ID2 < 0 || op.ID2 >= len(subIDs) {
			return nil, nil
		}
		kind, sub, full := idOf(op.ID, op.Child)
		m := get(full)
		wantDup := map[string]int{}
		switch op.K {
		case "spawn":
			if m.live {
				wantDup[full]++
				feat["sequential-duplicate"]++
			} else {
				if m.stopped > 0 {
					feat["respawn-after-stop"]++
				}
				m.live, m.calls = true, m.calls+1
			}
			if err := h.spawn(op.ID, op.Child); err != nil {
				return nil, err
			}
		case "stillborn":
			if op.DiesIn != "Initialized" && op.DiesIn != "Started" {
				return nil, nil
			}
			if m.live {
				// the id is taken: nothing happens, the doomed producer never runs
				wantDup[full]++
				feat["sequential-duplicate"]++
			} else {
				if m.stopped > 0 {
					feat["respawn-after-stop"]++
				}
				// it runs once, dies of max-restarts inside Spawn, and is gone when Spawn returns
				m.calls++
				m.stopped++
				feat["died-inside-its-own-spawn"]++
				h.mu.Lock()
				h.diesIn[full] = op.DiesIn
				h.mu.Unlock()
			}
			if err := h.spawn(op.ID, op.Child, actor.WithMaxRestarts(0)); err != nil {
				return nil, err
			}
		case "burst":
			if op.G < 1 || op.G > 8 || op.G2 < 0 || op.G2 > 8 {
				return nil, nil
			}
			_, _, full2 := idOf(op.ID2, op.Child)
			plan := map[string]int{full: op.G}
			ids := []int{}
			for i := 0; i < op.G; i++ {
				ids = append(ids, op.ID)
			}
			if op.G2 > 0 && full2 != full {
				plan[full2] = op.G2
				for i := 0; i < op.G2; i++ {
					ids = append(ids, op.ID2)
				}
			}
			for f, g := range plan {
				mm := get(f)
				if mm.live {
					wantDup[f] += g
				} else {
					if mm.stopped > 0 {
						feat["respawn-after-stop"]++
					}
					mm.live, mm.calls = true, mm.calls+1
					wantDup[f] += g - 1
					if g >= 2 && !op.Child {
						feat["concurrent-same-id-spawns"]++
					}
				}
			}
			var wg sync.WaitGroup
			start := make(chan struct{})
			errs := make(chan error, len(ids))
			for _, id := range ids {
				wg.Add(1)
				go func(id int) {
					defer wg.Done()
					<-start
					if !op.Child {
						if err := h.spawn(id, false); err != nil {
							errs <- err
						}
						return
					}
					// children can only be spawned by their parent: concurrency is between the
					// parent's SpawnChild and plain goroutines is not possible for one id; use top-level
					if err := h.spawn(id, true); err != nil {
						errs <- err
					}
				}(id)
			}
			close(start)
			wg.Wait()
			select {
			case err := <-errs:
				return nil, err
			default:
			}
		case "stop", "poison":
			pid := actor.NewPID(e.Address(), full)
			var ctxDone <-chan struct{}
			if op.K == "stop" {
				ctxDone = e.Stop(pid).Done()
			} else {
				ctxDone = e.Poison(pid).Done()
			}
			if err := waitCh(ctxDone, "stop context of "+full+" not done"); err != nil {
				return nil, err
			}
			if m.live {
				m.live = false
				m.stopped++
			} else {
				feat["stop-of-unknown-id"]++
			}
		case "churn":
			// lookups and sends from several goroutines while the id goes through stop / respawn rounds:
			// after a stop the id resolves to nobody, after a respawn to the new actor - whatever a
			// lookup saw while the registry was being changed
			if m.live || op.G < 1 || op.G > 6 || op.N < 1 || op.N > 60 {
				continue
			}
			pidc := actor.NewPID(e.Address(), full)
			for round := 0; round < op.N; round++ {
				if err := h.spawn(op.ID, op.Child); err != nil {
					return nil, err
				}
				m.calls++
				stopLook := make(chan struct{})
				var lw sync.WaitGroup
				for g := 0; g < op.G; g++ {
					lw.Add(1)
					go func() {
						defer lw.Done()
						for {
							select {
							case <-stopLook:
								return
							default:
							}
							e.Registry.GetPID(kind, sub)
							e.Send(pidc, gate{ch: closedCh})
						}
					}()
				}
				err := waitCh(e.Poison(pidc).Done(), "churn: stop context not done")
				close(stopLook)
				lw.Wait()
				if err != nil {
					return nil, err
				}
				m.stopped++
				if p := e.Registry.GetPID(kind, sub); p != nil {
					return nil, fmt.Errorf("op %d (churn, round %d): %s has stopped (its stop context is done) and Registry.GetPID still returns %v", oi, round, full, p)
				}
			}
			// ... and a respawn is reachable: a marker sent through an old PID object arrives at the new actor
			if err := h.spawn(op.ID, op.Child); err != nil {
				return nil, err
			}
			m.live, m.calls = true, m.calls+1
			mk := mark{make(chan struct{})}
			e.Send(pidc, mk)
			select {
			case <-mk.ch:
			case <-time.After(5 * time.Second):
				if p := e.Registry.GetPID(kind, sub); p == nil {
					return nil, fmt.Errorf("op %d (churn): %s was spawned again after %d stop/respawn rounds under concurrent lookups, and GetPID returns nil", oi, full, op.N)
				}
				return nil, fmt.Errorf("op %d (churn): %s was spawned again after %d stop/respawn rounds under concurrent lookups; a message sent to it is not delivered while GetPID names it: lookups resolve the id to a process that is gone", oi, full, op.N)
			}
			feat["lookups-racing-with-stop-and-respawn"]++
		case "slowstop":
			if !m.live {
				continue
			}
			pid := actor.NewPID(e.Address(), full)
			g := &gateIn{ch: make(chan struct{}), in: make(chan struct{})}
			h.mu.Lock()
			h.stopGate[full] = g
			h.mu.Unlock()
			ctxDone := e.Poison(pid).Done()
			if err := waitCh(g.in, "the actor never reached its Stopped handler"); err != nil {
				return nil, err
			}
			// inside Stopped: unregistered already, whoever asks
			if p := e.Registry.GetPID(kind, sub); p != nil {
				close(g.ch)
				return nil, fmt.Errorf("op %d: %s is handling Stopped (it was unregistered before), yet Registry.GetPID returns %v", oi, full, p)
			}
			res := make(chan *actor.PID, 1)
			e.Send(h.parent, func(c *actor.Context) { res <- c.GetPID(full) })
			select {
			case p := <-res:
				if p != nil {
					close(g.ch)
					return nil, fmt.Errorf("op %d: %s is handling Stopped and is not registered any more, yet Context.GetPID asked from its parent returns %v", oi, full, p)
				}
			case <-time.After(wait):
				close(g.ch)
				return nil, fmt.Errorf("%w: parent did not answer a lookup", errInconclusive)
			}
			close(g.ch)
			if err := waitCh(ctxDone, "stop context of "+full+" not done"); err != nil {
				return nil, err
			}
			m.live = false
			m.stopped++
			feat["lookup-while-the-actor-handles-Stopped"]++
		case "slowkid":
			// the holder of the id is being shut down and waits for a child whose Stopped handler
			// blocks: it has not handled Stopped itself, it is still registered, the id is taken
			if !m.live {
				continue
			}
			pid := actor.NewPID(e.Address(), full)
			g := &gateIn{ch: make(chan struct{}), in: make(chan struct{})}
			spawned := make(chan struct{})
			e.Send(pid, func(c *actor.Context) {
				c.SpawnChildFunc(func(cc *actor.Context) {
					if _, ok := cc.Message().(actor.Stopped); ok {
						close(g.in)
						<-g.ch
					}
				}, "slow", actor.WithID("0"))
				close(spawned)
			})
			if err := waitCh(spawned, "the actor did not spawn its slow child"); err != nil {
				return nil, err
			}
			ctxDone := e.Poison(pid).Done()
			if err := waitCh(g.in, "the child never reached its Stopped handler"); err != nil {
				return nil, err
			}
			h.mu.Lock()
			g2 := &gateIn{ch: make(chan struct{}), in: make(chan struct{})}
			h.stopGate[full] = g2 // tells whether the holder has handled Stopped
			h.mu.Unlock()
			close(g2.ch)
			if err := h.spawn(op.ID, op.Child); err != nil {
				close(g.ch)
				return nil, err
			}
			wantDup[full]++
			select {
			case <-g2.in:
				close(g.ch)
				return nil, fmt.Errorf("op %d: %s handled Stopped while its child was still inside its own Stopped handler", oi, full)
			default:
			}
			h.mu.Lock()
			ran := h.calls[full] != m.calls
			h.mu.Unlock()
			if ran {
				close(g.ch)
				return nil, fmt.Errorf("op %d: %s is being shut down (it waits for a child, has not handled Stopped and is registered); a spawn of its id ran the Producer: two actors answer to one id", oi, full)
			}
			close(g.ch)
			if err := waitCh(ctxDone, "stop context of "+full+" not done"); err != nil {
				return nil, err
			}
			m.live = false
			m.stopped++
			feat["spawn-over-an-actor-that-waits-for-its-children-to-stop"]++
		case "mass":
			if op.N < 1 || op.N > 3000 {
				return nil, nil
			}
			for round := 0; round < 2; round++ {
				pids := make([]*actor.PID, op.N)
				for i := range pids {
					pids[i] = e.SpawnFunc(func(*actor.Context) {}, "m", actor.WithID(fmt.Sprint(i)))
				}
				ctxs := make([]<-chan struct{}, op.N)
				for i, p := range pids {
					ctxs[i] = e.Poison(p).Done()
				}
				for i := range ctxs {
					if err := waitCh(ctxs[i], "mass stop"); err != nil {
						return nil, err
					}
				}
				for i := range pids {
					if p := e.Registry.GetPID("m", fmt.Sprint(i)); p != nil {
						return nil, fmt.Errorf("op %d: %d actors were spawned and all stopped (round %d); m/%d is still registered although its stop context is done", oi, op.N, round+1, i)
					}
				}
			}
			feat["mass-spawn-and-stop"]++
		case "dupover":
			// duplicates spawned over an incumbent that is blocked with a backlog
			if !m.live || op.Backlog < 1 || op.Backlog > 20 || op.G < 1 || op.G > 8 {
				continue
			}
			pid := actor.NewPID(e.Address(), full)
			if op.Poisoned {
				// [gate1] then, while the actor is blocked in it: [pill, gate2, backlog..., marker] - one batch
				g1, g2 := gate{make(chan struct{})}, gate{make(chan struct{})}
				in1, in2 := make(chan struct{}), make(chan struct{})
				e.Send(pid, gateIn{g1.ch, in1})
				// the actor must be INSIDE the first gate before anything else is queued: only then is
				// everything that follows popped as one batch when the gate opens
				if err := waitCh(in1, "the incumbent never reached the first gate"); err != nil {
					return nil, err
				}
				h.mu.Lock()
				base := len(h.logs[full])
				h.mu.Unlock()
				stopCtx := e.Poison(pid)
				e.Send(pid, gateIn{g2.ch, in2})
				for i := 0; i < op.Backlog; i++ {
					e.Send(pid, umsg{oi*100 + i})
				}
				close(g1.ch)
				if err := waitCh(in2, "the incumbent never reached the gate queued behind its poison pill"); err != nil {
					return nil, err
				}
				// the incumbent is draining: it has not handled Stopped, it is live
				if p := e.Registry.GetPID(kind, sub); p == nil {
					return nil, fmt.Errorf("op %d: %s is draining the messages queued behind a Poison (it has not handled Stopped), but GetPID no longer returns it", oi, full)
				}
				var wg sync.WaitGroup
				errs := make(chan error, op.G)
				for i := 0; i < op.G; i++ {
					wg.Add(1)
					go func() {
						defer wg.Done()
						if err := h.spawn(op.ID, op.Child); err != nil {
							errs <- err
						}
					}()
				}
				wg.Wait()
				select {
				case err := <-errs:
					return nil, err
				default:
				}
				wantDup[full] += op.G
				close(g2.ch)
				if err := waitCh(stopCtx.Done(), "poison context of "+full+" not done"); err != nil {
					return nil, err
				}
				h.mu.Lock()
				l := append([]string(nil), h.logs[full][base:]...)
				h.mu.Unlock()
				if len(l) != op.Backlog {
					return nil, fmt.Errorf("op %d: %d duplicate spawns over %s while it drained behind a Poison: it handled %d of the %d messages queued behind the pill in its batch (%v)", oi, op.G, full, len(l), op.Backlog, l)
				}
				m.live = false
				m.stopped++
				feat["duplicates-over-a-draining-actor"]++
				break
			}
			g := gate{make(chan struct{})}
			e.Send(pid, g)
			h.mu.Lock()
			base := len(h.logs[full])
			h.mu.Unlock()
			for i := 0; i < op.Backlog; i++ {
				e.Send(pid, umsg{oi*100 + i})
			}
			var wg sync.WaitGroup
			errs := make(chan error, op.G)
			for i := 0; i < op.G; i++ {
				wg.Add(1)
				go func() {
					defer wg.Done()
					if err := h.spawn(op.ID, op.Child); err != nil {
						errs <- err
					}
				}()
			}
			wg.Wait()
			select {
			case err := <-errs:
				return nil, err
			default:
			}
			wantDup[full] += op.G
			close(g.ch)
			mk := mark{make(chan struct{})}
			e.Send(pid, mk)
			if err := waitCh(mk.ch, "incumbent never handled the marker behind its backlog"); err != nil {
				return nil, err
			}
			h.mu.Lock()
			l := append([]string(nil), h.logs[full][base:]...)
			h.mu.Unlock()
			if len(l) != op.Backlog {
				return nil, fmt.Errorf("op %d: %d duplicate spawns over %s: the incumbent handled %d of its %d pending messages (%v)", oi, op.G, full, len(l), op.Backlog, l)
			}
			for i, s := range l {
				if s != fmt.Sprintf("%d:%d", m.calls, oi*100+i) {
					return nil, fmt.Errorf("op %d: duplicate spawns over %s: pending message %d was handled as %q (incarnation:payload), want %d:%d", oi, full, i, s, m.calls, oi*100+i)
				}
			}
			feat["duplicates-over-a-backlog"]++
		default:
			return nil, nil
		}
		// ---- after every op: producer calls, registry, duplicate events
		nbar++
		if err := mon.barrier(e, nbar); err != nil {
			return nil, err
		}
		mon.mu.Lock()
		dups := mon.dups
		mon.dups = nil
		mon.mu.Unlock()
		gotDup := map[string]int{}
		for _, d := range dups {
			gotDup[d]++
		}
		for f := range model {
			if gotDup[f] != wantDup[f] {
				return nil, fmt.Errorf("op %d (%s %s): %d ActorDuplicateIdEvent(s) for %s, want %d", oi, op.K, full, gotDup[f], f, wantDup[f])
			}
		}
		h.mu.Lock()
		for f, mm := range model {
			if h.calls[f] != mm.calls {
				h.mu.Unlock()
				return nil, fmt.Errorf("op %d (%s %s): the Producer of %s has run %d times, want %d (a duplicate spawn must not run it; of concurrent spawns exactly one wins)", oi, op.K, full, f, h.calls[f], mm.calls)
			}
		}
		h.mu.Unlock()
		_ = kind
		_ = sub
		for f, mm := range model {
			i := strings.LastIndex(f, "/")
			pid := e.Registry.GetPID(f[:i], f[i+1:])
			if (pid != nil) != mm.live {
				return nil, fmt.Errorf("op %d (%s %s): Registry.GetPID(%q) = %v, but the actor is live=%v", oi, op.K, full, f, pid, mm.live)
			}
			if pid != nil && pid.ID != f {
				return nil, fmt.Errorf("op %d: Registry.GetPID(%q) returned %v", oi, f, pid)
			}
			// Context.GetPID from inside the parent
			res := make(chan *actor.PID, 1)
			e.Send(h.parent, func(c *actor.Context) { res <- c.GetPID(f) })
			select {
			case p := <-res:
				if (p != nil) != mm.live {
					return nil, fmt.Errorf("op %d (%s %s): Context.GetPID(%q) = %v, but the actor is live=%v", oi, op.K, full, f, p, mm.live)
				}
			case <-time.After(wait):
				return nil, fmt.Errorf("%w: parent did not answer a lookup", errInconclusive)
			}
		}
		// the parent still lists exactly its live children: a duplicate spawn over a child leaves that
		// child untouched, also in its parent's books (a delisted child is not stopped with its parent)
		kids := make(chan []string, 1)
		e.Send(h.parent, func(c *actor.Context) {
			var l []string
			for _, p := range c.Children() {
				if p != nil {
					l = append(l, p.ID)
				}
			}
			sort.Strings(l)
			kids <- l
		})
		select {
		case got := <-kids:
			var want []string
			for f, mm := range model {
				if mm.live && strings.HasPrefix(f, "par/0/kid/") {
					want = append(want, f)
				}
			}
			sort.Strings(want)
			if strings.Join(got, ",") != strings.Join(want, ",") {
				return nil, fmt.Errorf("op %d (%s %s): the parent's Children() = %v, but its live children are %v", oi, op.K, full, got, want)
			}
		case <-time.After(wait):
			return nil, fmt.Errorf("%w: parent did not answer Children()", errInconclusive)
		}
	}
	return feat, nil
}

func genSpawns(t *rapid.T) SCase {
	c := SCase{}
	n := rapid.IntRange(1, 14).Draw(t, "ops")
	for i := 0; i < n; i++ {
		op := SOp{K: rapid.SampledFrom([]string{"spawn", "spawn", "spawn", "burst", "burst", "stop", "poison", "dupover", "stillborn", "slowstop", "slowkid", "churn"}).Draw(t, "k")}

		op.ID = rapid.IntRange(0, len(subIDs)-1).Draw(t, "id")
		op.Child = rapid.IntRange(0, 2).Draw(t, "child") == 0
		switch op.K {
		case "burst":
			op.G = rapid.IntRange(1, 8).Draw(t, "g")
			op.G2 = rapid.IntRange(0, 4).Draw(t, "g2")
			op.ID2 = rapid.IntRange(0, len(subIDs)-1).Draw(t, "id2")
		case "dupover":
			op.G = rapid.IntRange(1, 6).Draw(t, "g")
			op.Backlog = rapid.IntRange(1, 20).Draw(t, "backlog")
			op.Poisoned = rapid.IntRange(0, 2).Draw(t, "poisoned") == 0
		case "stillborn":
			op.DiesIn = rapid.SampledFrom([]string{"Initialized", "Started"}).Draw(t, "dies_in")
		case "churn":
			op.G = rapid.IntRange(1, 4).Draw(t, "g")
			op.N = rapid.SampledFrom([]int{5, 20, 40}).Draw(t, "rounds")
		}
		c.Ops = append(c.Ops, op)
	}
	return c
}

// TestMassRegistry: populations beyond the registry's initial capacity (1024): spawn N actors, stop
// them in a generated order and in generated waves, and look every id up afterwards.
func TestMassRegistry(t *testing.T) {
	st := vh.Test("TestMassRegistry")
	rapid.Check(t, func(t *rapid.T) {
		c := SCase{Ops: []SOp{{K: "mass", N: rapid.SampledFrom([]int{300, 1025, 1100, 1500, 2100, 2600}).Draw(t, "n")}}}
		check(t, st, c, func() (map[string]int, error) { return runSpawns(c) }, func(f map[string]int) bool {
			return f["mass-spawn-and-stop"] > 0 && c.Ops[0].N > 1024
		})
	})
}

func TestSpawns(t *testing.T) {
	st := vh.Test("TestSpawns")
	rapid.Check(t, func(t *rapid.T) {
		c := genSpawns(t)
		check(t, st, c, func() (map[string]int, error) { return runSpawns(c) }, func(f map[string]int) bool {
			return f["concurrent-same-id-spawns"] > 0 || f["respawn-after-stop"] > 0
		})
	})
}

// =============================== C11 ====================================================

type Req struct {
	R int    `json:"r"` // responder
	B string `json:"b"` // reply none late twice held twicelate (second Respond from the same Receive, after Result() returned)
	// Via: 0 = Engine.Request from a goroutine; 1 = Context.Request from inside a requester actor; 2 = the
	// same, the requester actor having been spawned WithContext(a context that is cancelled already)
	Via int `json:"via,omitempty"`
	T   int `json:"t"` // timeout in ms for none/late/held
	// Long (reply twice twicelate): the caller waits "for ever": 1 = one hour, 2 = the largest Duration,
	// 3 = a few microseconds less than that.  The reply comes at once; what is generated is the timeout value.
	Long int `json:"long,omitempty"`
}

type RCase struct {
	Responders int   `json:"responders"`
	Reqs       []Req `json:"reqs"`
	// Decoys: ordinary actors of kind "response" with ids 1..Decoys are alive while the requests are
	// made.  They have nothing to do with anybody's request: no reply may reach them.
	Decoys int `json:"decoys,omitempty"`
}

type reqMsg struct {
	Token   int
	B       string
	replied chan struct{}
	again   chan struct{} // twicelate: closed by the requester once Result() has returned
	done    chan struct{} // twicelate: closed by the responder after its second Respond
}
type repMsg struct {
	Token  int
	Second bool
}
type poke struct{}
type fire struct {
	Token int
	done  chan struct{}
}

var collisions atomic.Int64

func runRequests(c RCase) (map[string]int, error) {
	if c.Responders < 1 || c.Responders > 4 || len(c.Reqs) < 1 || len(c.Reqs) > 32 {
		return nil, nil
	}
	feat := map[string]int{}
	e, err := actor.NewEngine(actor.NewEngineConfig())
	if err != nil {
		return nil, fmt.Errorf("harness: %v", err)
	}
	if c.Decoys < 0 || c.Decoys > 8 {
		return nil, nil
	}
	var decoyGot atomic.Int64
	for d := 1; d <= c.Decoys; d++ {
		e.SpawnFunc(func(ctx *actor.Context) {
			if _, ok := ctx.Message().(repMsg); ok {
				decoyGot.Add(1)
			}
		}, "response", actor.WithID(fmt.Sprint(d)))
	}
	if c.Decoys > 0 {
		feat["bystanders-of-kind-response"]++
	}
	mon := newMonitor(e)
	// A first reply that becomes a dead letter while its requester has not even returned from Result()
	// (and is nowhere near its timeout) was sent to a response PID that should have been registered:
	// the reply is lost, whatever Result() says later.  The monitor sees an event after it was
	// published, so "seen before Result() returned" implies "published before".
	var (
		startedAt = make([]atomic.Int64, len(c.Reqs))
		returned  = make([]atomic.Bool, len(c.Reqs))
		early     = make([]atomic.Bool, len(c.Reqs))
	)
	mon.mu.Lock()
	mon.onDL = func(dl actor.DeadLetterEvent) {
		m, ok := dl.Message.(repMsg)
		if !ok || m.Second || m.Token < 0 || m.Token >= len(c.Reqs) {
			return
		}
		t0 := startedAt[m.Token].Load()
		if t0 != 0 && !returned[m.Token].Load() && time.Since(time.Unix(0, t0)) < 10*time.Second {
			early[m.Token].Store(true)
		}
	}
	mon.mu.Unlock()
	var resp []*actor.PID
	for i := 0; i < c.Responders; i++ {
		held := map[int]*actor.PID{} // owned by the responder actor
		resp = append(resp, e.SpawnFunc(func(ctx *actor.Context) {
			switch m := ctx.Message().(type) {
			case reqMsg:
				switch m.B {
				case "reply":
					ctx.Respond(repMsg{Token: m.Token})
				case "twice":
					ctx.Respond(repMsg{Token: m.Token})
					ctx.Respond(repMsg{Token: m.Token, Second: true})
				case "late":
					held[m.Token] = ctx.Sender()
				case "twicelate":
					ctx.Respond(repMsg{Token: m.Token})
					<-m.again
					ctx.Respond(repMsg{Token: m.Token, Second: true})
					close(m.done)
				case "held":
					// reply at once; the requester collects it only after more than the timeout
					ctx.Respond(repMsg{Token: m.Token})
					close(m.replied)
				case "heldnil":
					// the same with nil as the reply: a reply is a reply, whatever its value
					ctx.Respond(nil)
					close(m.replied)
				}
			case poke:
				// a message that came without a sender: there is nobody to respond to, whoever was answered
				// (or not answered) before
				ctx.Respond(repMsg{Token: -7})
			case fire:
				if p := held[m.Token]; p != nil {
					ctx.Send(p, repMsg{Token: m.Token})
				}
				close(m.done)
			}
		}, "responder", actor.WithID(fmt.Sprint(i))))
	}
	type outcome struct {
		err    error
		respID string
	}
	var feat1 atomic.Bool // some request waits longer than the harness does
	out := make([]outcome, len(c.Reqs))
	var wg sync.WaitGroup
	start := make(chan struct{})
	for i, r := range c.Reqs {
		if r.R < 0 || r.R >= c.Responders {
			return nil, nil
		}
		feat["behaviour-"+r.B]++
		wg.Add(1)
		go func(i int, r Req) {
			defer wg.Done()
			<-start
			timeout := wait
			if r.B == "none" || r.B == "late" {
				timeout = time.Duration(r.T) * time.Millisecond
			}
			if r.B == "held" || r.B == "heldnil" {
				// the reply is there before Result() is called, so it has "arrived within the timeout" however
				// short that is - also when the deadline has passed by the time Result() looks (T = 0, or a
				// goroutine that is not scheduled for a while: finding F22)
				timeout = time.Duration(r.T) * time.Millisecond
			}
			if r.B == "reply" || r.B == "twice" || r.B == "twicelate" {
				switch r.Long {
				case 1:
					timeout = time.Hour
				case 2:
					timeout = time.Duration(math.MaxInt64)
				case 3:
					timeout = time.Duration(math.MaxInt64 - 100_000)
				}
			}
			rq := reqMsg{Token: i, B: r.B, replied: make(chan struct{}), again: make(chan struct{}), done: make(chan struct{})}
			if timeout >= wait {
				startedAt[i].Store(time.Now().UnixNano())
			}
			var rs *actor.Response
			if r.Via == 0 {
				rs = e.Request(resp[r.R], rq, timeout)
			} else {
				// the request is made by an actor, from inside its Receive
				got := make(chan *actor.Response, 1)
				opts := []actor.OptFunc{}
				if r.Via == 2 {
					cctx, cancel := context.WithCancel(context.Background())
					cancel()
					opts = append(opts, actor.WithContext(cctx))
				}
				rp := e.SpawnFunc(func(c *actor.Context) {
					if _, ok := c.Message().(int); ok {
						got <- c.Request(resp[r.R], rq, timeout)
					}
				}, "requester", opts...)
				e.Send(rp, 1)
				select {
				case rs = <-got:
				case <-time.After(wait):
					out[i].err = fmt.Errorf("%w: requester actor did not issue its request", errInconclusive)
					return
				}
				defer e.Poison(rp)
			}
			out[i].respID = rs.PID().ID
			if r.B == "none" || r.B == "late" {
				// the responder keeps silent on the request; then it gets a message WITHOUT a sender and
				// calls Respond: that must go nowhere - not to this request, which is still waiting
				e.Send(resp[r.R], poke{})
			}
			if r.B == "held" || r.B == "heldnil" {
				// the reply is in the response's mailbox, well inside the timeout; Result() is called late
				if err := waitCh(rq.replied, "responder did not reply"); err != nil {
					out[i].err = err
					return
				}
				time.Sleep(timeout + 15*time.Millisecond)
			}
			t0 := time.Now()
			var v any
			var err error
			if timeout > wait {
				// "for ever" must not become the harness's problem when the reply is lost
				feat1.Store(true)
				type res struct {
					v   any
					err error
				}
				ch := make(chan res, 1)
				go func() { v, err := rs.Result(); ch <- res{v, err} }()
				select {
				case x := <-ch:
					v, err = x.v, x.err
				case <-time.After(wait):
					if early[i].Load() {
						out[i].err = fmt.Errorf("request %d (timeout %v): the responder's reply became a DeadLetterEvent while the requester was waiting in Result(), which is still waiting: a reply sent in time did not reach the requester", i, timeout)
					} else {
						out[i].err = fmt.Errorf("%w: request %d got no reply within %v", errInconclusive, i, wait)
					}
					return
				}
			} else {
				v, err = rs.Result()
			}
			returned[i].Store(true)
			el := time.Since(t0)
			if r.B == "twicelate" {
				close(rq.again) // Result() has returned: the responder may send its second reply now
			}
			switch {
			case err == nil && r.B == "heldnil":
				if v != nil {
					out[i].err = fmt.Errorf("request %d: the responder replied nil, Result() returned %#v", i, v)
					return
				}
			case err != nil && (r.B == "held" || r.B == "heldnil"):
				out[i].err = fmt.Errorf("request %d: the reply arrived before Result() was called (well within the timeout of %v), yet Result() returned the error %v", i, timeout, err)
				return
			case err == nil:
				m, ok := v.(repMsg)
				if !ok || m.Token != i {
					out[i].err = fmt.Errorf("request %d (%s to responder %d) got %#v: the reply to another request (cross-talk) or not a reply at all", i, r.B, r.R, v)
					return
				}
				if r.B == "none" || r.B == "late" {
					out[i].err = fmt.Errorf("request %d: Result() returned %#v although the responder had not replied", i, v)
					return
				}
			case el < timeout:
				out[i].err = fmt.Errorf("request %d: Result() failed with %v after %v, before its timeout of %v had passed", i, err, el, timeout)
				return
			case r.B == "reply" || r.B == "twice" || r.B == "twicelate":
				if decoyGot.Load() > 0 {
					out[i].err = fmt.Errorf("request %d (timeout %v) failed with %v, and %d replies were delivered to bystander actors of kind \"response\" that never asked anything", i, timeout, err, decoyGot.Load())
					return
				}
				if early[i].Load() {
					out[i].err = fmt.Errorf("request %d (timeout %v): the responder's reply became a DeadLetterEvent within 10 s of the request, while the requester was waiting in Result() - which then failed with %v: a reply sent in time did not reach the requester", i, timeout, err)
					return
				}
				out[i].err = fmt.Errorf("%w: request %d got no reply within %v", errInconclusive, i, timeout)
				return
			}
			// once Result() has returned the response PID is gone
			parts := strings.SplitN(out[i].respID, "/", 2)
			if p := e.Registry.GetPID(parts[0], parts[1]); p != nil {
				out[i].err = fmt.Errorf("request %d (%s): after Result() returned (err=%v) the response PID %s is still registered", i, r.B, err, out[i].respID)
				return
			}
			if r.B == "twicelate" {
				if err := waitCh(rq.done, "responder did not send its second reply"); err != nil {
					out[i].err = err
				}
			}
			if r.B == "late" {
				f := fire{i, make(chan struct{})}
				e.Send(resp[r.R], f)
				if err := waitCh(f.done, "responder did not send its late reply"); err != nil {
					out[i].err = err
				}
			}
		}(i, r)
	}
	close(start)
	wg.Wait()
	// Response ids are 31-bit random numbers from the global math/rand source, which the harness
	// cannot own: a case in which two requests drew the same id is not judged (see DESIGN.md, C11).
	// What IS judged is their frequency: with ids drawn from 2^31 values a case of n <= 32 requests
	// collides with probability < n^2/2^32 = 2.4e-7, so three colliding cases in one process
	// (< 1e-5 even for 10^6 cases) mean the ids are no longer what the engine documents.
	seen := map[string]bool{}
	for _, o := range out {
		if seen[o.respID] {
			feat["excluded-response-id-collision"]++
			if n := collisions.Add(1); n >= 3 {
				return nil, fmt.Errorf("the response ids of concurrent requests collided in %d cases of this run (a 31-bit random id explains < 2.4e-7 per case): "+
					"two outstanding requests share the response PID %s, so replies cross over and one requester times out", n, o.respID)
			}
			return feat, nil
		}
		seen[o.respID] = true
	}
	for _, o := range out {
		if o.err != nil {
			return nil, o.err
		}
	}
	if err := mon.barrier(e, 1); err != nil {
		return nil, err
	}
	if n := decoyGot.Load(); n > 0 {
		return nil, fmt.Errorf("%d replies were delivered to bystander actors of kind \"response\" that never asked anything", n)
	}
	mon.mu.Lock()
	defer mon.mu.Unlock()
	for i, r := range c.Reqs {
		if r.B != "late" && r.B != "twicelate" {
			continue
		}
		k := 0
		for _, dl := range mon.dls {
			if dl.Target != nil && dl.Target.ID == out[i].respID {
				if m, ok := dl.Message.(repMsg); !ok || m.Token != i || (r.B == "twicelate" && !m.Second) {
					return nil, fmt.Errorf("request %d: the dead letter for its late reply carries %#v", i, dl.Message)
				}
				k++
			}
		}
		if k != 1 {
			return nil, fmt.Errorf("request %d: a reply sent after Result() had returned produced %d DeadLetterEvents for %s, want 1", i, k, out[i].respID)
		}
	}
	if len(c.Reqs) >= 2 {
		feat["concurrent-requests"]++
	}
	if feat1.Load() {
		feat["timeout-of-an-hour-or-the-largest-duration"]++
	}
	return feat, nil
}

func genRequests(t *rapid.T) RCase {
	c := RCase{Responders: rapid.IntRange(1, 4).Draw(t, "responders"), Decoys: rapid.SampledFrom([]int{0, 0, 0, 3, 8}).Draw(t, "decoys")}
	n := rapid.IntRange(1, 32).Draw(t, "n")
	for i := 0; i < n; i++ {
		c.Reqs = append(c.Reqs, Req{
			R:   rapid.IntRange(0, c.Responders-1).Draw(t, "r"),
			B:   rapid.SampledFrom([]string{"reply", "reply", "reply", "twice", "none", "late", "held", "heldnil", "twicelate"}).Draw(t, "b"),
			Via: rapid.SampledFrom([]int{0, 0, 0, 1, 2}).Draw(t, "via"),
			// 0 = a request whose timeout has passed as soon as it is made (Result() must still clean up)
			T:    rapid.SampledFrom([]int{0, 0, 5, 8, 13, 21, 30, 40}).Draw(t, "t"),
			Long: rapid.SampledFrom([]int{0, 0, 0, 0, 1, 2, 3}).Draw(t, "long"),
		})
	}
	return c
}

func TestRequests(t *testing.T) {
	st := vh.Test("TestRequests")
	rapid.Check(t, func(t *rapid.T) {
		c := genRequests(t)
		check(t, st, c, func() (map[string]int, error) { return runRequests(c) }, func(f map[string]int) bool {
			return f["concurrent-requests"] > 0 && f["behaviour-reply"]+f["behaviour-twice"]+f["behaviour-held"] >= 2 && f["behaviour-none"]+f["behaviour-late"] >= 1
		})
	})
}

func rep[T any](run func(T) (map[string]int, error)) func(json.RawMessage) error {
	return func(raw json.RawMessage) error {
		var c T
		if err := json.Unmarshal(raw, &c); err != nil {
			return err
		}
		_, err := run(c)
		return err
	}
}

func init() {
	vh.RegisterReplay("TestDelivery", rep(runDelivery))
	vh.RegisterReplay("TestSpawns", rep(runSpawns))
	vh.RegisterReplay("TestMassRegistry", rep(runSpawns))
	vh.RegisterReplay("TestRequests", func(raw json.RawMessage) error {
		// the collision-frequency verdict needs several executions of the case
		var c RCase
		if err := json.Unmarshal(raw, &c); err != nil {
			return err
		}
		for i := 0; i < 30; i++ {
			if _, err := runRequests(c); err != nil {
				return err
			}
		}
		return nil
	})
}
