// C09: undeliverable messages surface exactly once as events, never silently.
// C12: the event stream delivers each event once to each current subscriber, in order.
//
// One driver goroutine executes a generated history on a fresh engine.  Subscribers are
// real actors that log what they receive.  Barriers are logical: a sentinel event
// broadcast by the driver (event stream and inboxes are FIFO) followed by a direct probe
// message to every subscriber, so that whatever was forwarded before is in the log.
package events

import (
	"context"
	"encoding/json"
	"errors"
	"fmt"
	"reflect"
	"strings"
	"sync"
	"sync/atomic"
	"testing"
	"time"

	"github.com/anthdm/hollywood/actor"
	"pgregory.net/rapid"

	"verif/internal/vh"
)

func TestMain(m *testing.M)   { vh.Main(m) }
func TestReplay(t *testing.T) { vh.Replay(t) }

var errInconclusive = errors.New("harness: bounded wait expired")

const wait = 30 * time.Second

// ---- case --------------------------------------------------------------------------

type Op struct {
	K    string `json:"k"`              // sub unsub bcast burst life send stopsub
	I    int    `json:"i,omitempty"`    // subscriber
	Copy bool   `json:"copy,omitempty"` // address the subscriber through an equal PID held in a distinct object
	G    int    `json:"g,omitempty"`    // burst: broadcasters
	N    int    `json:"n,omitempty"`    // burst: events per broadcaster
	// life
	Crash bool `json:"crash,omitempty"`
	Dup   bool `json:"dup,omitempty"`
	Dead  bool `json:"dead,omitempty"`
	// Restop: the temp actor is stopped a second time after it is gone; the undeliverable stop request
	// is a dead-letter occurrence (engine.go: "if we didn't find a process, we will broadcast a DeadletterEvent")
	Restop bool `json:"restop,omitempty"`
	// DupChild: the temp actor has a child (spawned in Started); it is asked to SpawnChild the same kind
	// and id again: one ActorDuplicateIdEvent, as for a top-level duplicate
	DupChild bool `json:"dup_child,omitempty"`
	// SelfSend: from inside its Stopped handler the temp actor sends a message to its own PID.  The
	// actor is unregistered by then, so this is a send to a PID without a registered actor: one dead letter.
	SelfSend bool `json:"self_send,omitempty"`
	// Die: the temp actor has no restart budget and is crashed to death instead of being poisoned: it
	// stops all the same, and ActorStoppedEvent is published for it
	Die bool `json:"die,omitempty"`
	// PillBehind (with Crash; 1 = Poison, 2 = Stop): the stop request is queued behind the crashing
	// message in the same inbox batch.  The fresh incarnation is started (it handles Started), finds
	// the request in the replayed tail and stops: restarted, STARTED and stopped are all occurrences.
	PillBehind int `json:"pill_behind,omitempty"`
	// Resp: the temp actor's kind is "responses" (it begins like the kind of the engine's response processes)
	Resp bool `json:"resp,omitempty"`
	// send
	Tgt string `json:"tgt,omitempty"` // nil never stopped foreign live
	Snd int    `json:"snd,omitempty"` // 0 = no sender
	Msg int    `json:"msg,omitempty"`
	// Via: "" = Engine.Send / SendWithSender, "local" = Engine.SendLocal, "stop" / "poison" = Engine.Stop /
	// Engine.Poison of that target (the undeliverable thing is then the engine's own stop request)
	Via string `json:"via,omitempty"`
}

// pillMarker stands for the engine-private stop request in an expected DeadLetterEvent.
type pillMarker struct{}

type Case struct {
	Subs int  `json:"subs"`
	Ops  []Op `json:"ops"`
}

// ---- events as the subscribers see them --------------------------------------------------

type Ev struct{ Phase, G, N int }
type sentinel struct{ N int }
type probe struct{ N int }

type rec struct {
	kind  string // ev life dl rm sentinel other
	phase int
	g, n  int
	text  string
	tgt   *actor.PID
	snd   *actor.PID
	msg   any
}

type subscriber struct {
	mu     sync.Mutex
	cond   *sync.Cond
	log    []rec
	probes int
	sents  int
	pid    *actor.PID
	gone   bool
	heir   func(c *actor.Context) // run once inside the Stopped handler
	stream *actor.PID             // the sender seen on the first sentinel
}

func (s *subscriber) receive(c *actor.Context) {
	var r rec
	switch m := c.Message().(type) {
	case actor.Initialized, actor.Started:
		return
	case actor.Stopped:
		s.mu.Lock()
		f := s.heir
		s.heir = nil
		s.mu.Unlock()
		if f != nil {
			f(c)
		}
		return
	case Ev:
		r = rec{kind: "ev", phase: m.Phase, g: m.G, n: m.N}
	case sentinel:
		s.mu.Lock()
		if s.stream == nil {
			s.stream = c.Sender() // events arrive with the event stream as their sender
		}
		s.sents = max(s.sents, m.N)
		s.cond.Broadcast()
		s.mu.Unlock()
		return
	case probe:
		s.mu.Lock()
		s.probes = max(s.probes, m.N)
		s.cond.Broadcast()
		s.mu.Unlock()
		return
	case actor.ActorStartedEvent:
		r = rec{kind: "life", text: "started:" + m.PID.GetID()}
	case actor.ActorStoppedEvent:
		r = rec{kind: "life", text: "stopped:" + m.PID.GetID()}
	case actor.ActorRestartedEvent:
		r = rec{kind: "life", text: fmt.Sprintf("restarted(%d):%s", m.Restarts, m.PID.GetID())}
	case actor.ActorDuplicateIdEvent:
		r = rec{kind: "life", text: "duplicate:" + m.PID.GetID()}
	case actor.ActorMaxRestartsExceededEvent:
		r = rec{kind: "life", text: "maxrestarts:" + m.PID.GetID()}
	case actor.ActorInitializedEvent:
		return // not among the events the property lists
	case actor.DeadLetterEvent:
		r = rec{kind: "dl", tgt: m.Target, snd: m.Sender, msg: m.Message}
	case actor.EngineRemoteMissingEvent:
		r = rec{kind: "rm", tgt: m.Target, snd: m.Sender, msg: m.Message}
	default:
		r = rec{kind: "other", text: fmt.Sprintf("%T", m)}
	}
	s.mu.Lock()
	s.log = append(s.log, r)
	s.cond.Broadcast()
	s.mu.Unlock()
}

func (s *subscriber) waitFor(f func() bool) error { return s.waitForD(wait, f) }

func (s *subscriber) waitForD(wait time.Duration, f func() bool) error {
	deadline := time.Now().Add(wait)
	tm := time.AfterFunc(wait, func() { s.mu.Lock(); s.cond.Broadcast(); s.mu.Unlock() })
	defer tm.Stop()
	s.mu.Lock()
	defer s.mu.Unlock()
	for !f() {
		if time.Now().After(deadline) {
			return errInconclusive
		}
		s.cond.Wait()
	}
	return nil
}

func newSub() *subscriber {
	s := &subscriber{}
	s.cond = sync.NewCond(&s.mu)
	return s
}

// ---- expectations --------------------------------------------------------------------

type exp struct {
	kind  string
	phase int
	burst map[int]int // g -> number of events
	text  string
	tgt   *actor.PID
	snd   *actor.PID
	msg   any
	// opt: the occurrence may or may not have happened (a stop request that overlaps the very end of
	// the target's clean-up is either signalled by the clean-up or dead-lettered); when the next
	// record is something else, the expectation is dropped and the record is looked at again
	opt bool
}

func pidStr(p *actor.PID) string {
	if p == nil {
		return "<nil>"
	}
	return p.Address + "/" + p.ID
}

func samePID(a, b *actor.PID) bool {
	if a == nil || b == nil {
		return a == nil && b == nil
	}
	return a.Address == b.Address && a.ID == b.ID
}

func (r rec) String() string {
	switch r.kind {
	case "ev":
		return fmt.Sprintf("Ev{op %d, broadcaster %d, #%d}", r.phase, r.g, r.n)
	case "dl", "rm":
		n := map[string]string{"dl": "DeadLetterEvent", "rm": "EngineRemoteMissingEvent"}[r.kind]
		return fmt.Sprintf("%s{Target:%s Message:%v Sender:%s}", n, pidStr(r.tgt), r.msg, pidStr(r.snd))
	}
	return r.kind + " " + r.text
}

type harness struct {
	e        *actor.Engine
	subs     []*subscriber
	anchor   *subscriber
	model    []bool // subscribed (by address and id)
	expect   [][]exp
	nsent    int
	departed map[string]bool
	senders  []*actor.PID
	live     *actor.PID
	liveGot  chan any
	stopped  *actor.PID
	tmpN     int
	feat     map[string]int
}

func (h *harness) note(k string) { h.feat[k]++ }

func (h *harness) add(x exp) {
	for i, on := range h.model {
		if on && !h.subs[i].gone {
			h.expect[i] = append(h.expect[i], x)
			if x.kind == "dl" || x.kind == "rm" {
				h.note("observed-by-a-monitor")
			}
		}
	}
}

// barrier: everything broadcast so far has reached the inbox of every subscriber the
// event stream forwards it to, and every live subscriber has logged its inbox up to here.
func (h *harness) barrier() error {
	h.nsent++
	n := h.nsent
	h.e.BroadcastEvent(sentinel{n})
	if err := h.anchor.waitForD(5*time.Second, func() bool { return h.anchor.sents >= n }); err != nil {
		// The anchor has been subscribed since before the history began.  Is the event stream merely
		// slow, or was the sentinel lost?  Events broadcast by one goroutine reach a subscriber in
		// broadcast order, so a LATER event of this goroutine arriving while the sentinel is still
		// missing decides it.  The follow-up is a lifecycle event (a different kind of event than the
		// sentinel, in case the loss depends on the kind).
		h.anchor.mu.Lock()
		before := len(h.anchor.log)
		h.anchor.mu.Unlock()
		h.tmpN++
		fp := h.e.SpawnFunc(func(*actor.Context) {}, "followup", actor.WithID(fmt.Sprint(h.tmpN)))
		arrived := h.anchor.waitForD(wait, func() bool {
			if h.anchor.sents >= n {
				return true
			}
			for _, r := range h.anchor.log[before:] {
				if r.kind == "life" && strings.HasPrefix(r.text, "started:followup/") {
					return true
				}
			}
			return false
		}) == nil
		h.e.Poison(fp)
		h.anchor.mu.Lock()
		seen := h.anchor.sents >= n
		h.anchor.mu.Unlock()
		if arrived && !seen {
			return fmt.Errorf("an event broadcast while a subscriber was subscribed never reached it, although a later event of the same goroutine did (sentinel %d lost by the event stream)", n)
		}
		if !seen {
			// Neither arrived.  Slow - or is the anchor not a subscriber any more?  A witness that subscribes
			// now is forwarded two further sentinels: when it has the second, the stream has finished
			// forwarding the first to everybody it knows.  A direct message to the anchor, sent after that,
			// queues behind whatever the stream put into the anchor's inbox: the anchor handling it without
			// having seen the first witness sentinel was not forwarded that sentinel - it lost its
			// subscription without ever being unsubscribed.
			w := newSub()
			w.pid = h.e.SpawnFunc(w.receive, "witness", actor.WithID(fmt.Sprint(n)))
			h.e.Subscribe(w.pid)
			defer func() { h.e.Unsubscribe(w.pid); h.e.Poison(w.pid) }()
			h.nsent += 2
			n2, n3 := h.nsent-1, h.nsent
			h.e.BroadcastEvent(sentinel{n2})
			h.e.BroadcastEvent(sentinel{n3})
			if w.waitFor(func() bool { return w.sents >= n3 }) == nil {
				mark := 1<<30 + n3
				h.e.Send(h.anchor.pid, probe{mark})
				if h.anchor.waitFor(func() bool { return h.anchor.probes >= mark }) == nil {
					h.anchor.mu.Lock()
					got := h.anchor.sents
					h.anchor.mu.Unlock()
					if got < n2 {
						return fmt.Errorf("a subscriber that was never unsubscribed is no longer forwarded events: a witness subscribed just now received sentinels %d and %d, the old subscriber handled a direct message sent after that and has seen no sentinel beyond %d (sentinel %d and everything after it were lost to it)", n2, n3, got, n)
					}
				}
			}
			return fmt.Errorf("%w: the anchor subscriber never saw sentinel %d", errInconclusive, n)
		}
	}
	for _, s := range append([]*subscriber{h.anchor}, h.subs...) {
		if s.gone {
			continue
		}
		h.e.Send(s.pid, probe{n})
		if err := s.waitFor(func() bool { return s.probes >= n }); err != nil {
			return fmt.Errorf("%w: subscriber %s never saw probe %d", errInconclusive, s.pid.ID, n)
		}
	}
	return nil
}

func msgVal(i int) any {
	if i >= 12 {
		return nil // a nil message is a message value like any other
	}
	switch i % 4 {
	case 0:
		return fmt.Sprintf("m%d", i)
	case 1:
		return i
	case 2:
		return struct{ A, B int }{i, -i}
	default:
		return &actor.Ping{From: actor.NewPID("p", fmt.Sprint(i))}
	}
}

func protect(f func()) (perr any) {
	defer func() { perr = recover() }()
	f()
	return nil
}

func run(c Case, c09 bool) (feat map[string]int, err error) {
	if c.Subs < 1 || c.Subs > 4 {
		return nil, nil
	}
	e, err := actor.NewEngine(actor.NewEngineConfig())
	if err != nil {
		return nil, fmt.Errorf("harness: %v", err)
	}
	h := &harness{e: e, departed: map[string]bool{}, feat: map[string]int{}, liveGot: make(chan any, 1024)}
	h.anchor = newSub()
	h.anchor.pid = e.SpawnFunc(h.anchor.receive, "anchor", actor.WithID("0"))
	e.Subscribe(h.anchor.pid)
	for i := 0; i < c.Subs; i++ {
		s := newSub()
		s.pid = e.SpawnFunc(s.receive, "sub", actor.WithID(fmt.Sprint(i)))
		h.subs = append(h.subs, s)
	}
	h.model = make([]bool, c.Subs)
	h.expect = make([][]exp, c.Subs)
	h.senders = []*actor.PID{nil, actor.NewPID("local", "snd/a"), actor.NewPID("far:1", "snd/b"), h.subs[0].pid}
	h.live = e.SpawnFunc(func(c *actor.Context) {
		switch c.Message().(type) {
		case actor.Initialized, actor.Started, actor.Stopped:
		default:
			h.liveGot <- c.Message()
		}
	}, "live", actor.WithID("0"))
	h.stopped = e.SpawnFunc(func(c *actor.Context) {}, "stopped", actor.WithID("0"))
	<-e.Poison(h.stopped).Done()
	// sender 4: the PID that every subscriber sees as the sender of an event - the event stream itself
	// (an actor that relays an event onward "with its original sender" uses exactly this PID)
	if err := h.barrier(); err != nil {
		return nil, err
	}
	h.anchor.mu.Lock()
	h.senders = append(h.senders, h.anchor.stream)
	h.anchor.mu.Unlock()

	for oi, op := range c.Ops {
		if op.I < 0 || op.I >= c.Subs {
			return nil, nil
		}
		s := h.subs[op.I]
		pid := s.pid
		if op.Copy {
			pid = &actor.PID{Address: s.pid.Address, ID: s.pid.ID}
		}
		switch op.K {
		case "sub":
			if s.gone {
				// The id of a subscriber that left is free.  An actor spawned under it later and subscribed
				// is a subscriber like any other, whatever stream or engine remember about the id's former
				// holder.  The barrier makes the moment well-defined: the stream has forwarded (and, finding
				// nobody, dropped) everything that was under way to the former holder.
				if err := h.barrier(); err != nil {
					return nil, err
				}
				s.pid = e.SpawnFunc(s.receive, "sub", actor.WithID(fmt.Sprint(op.I)))
				s.gone = false
				pid = s.pid
				if op.Copy {
					pid = &actor.PID{Address: s.pid.Address, ID: s.pid.ID}
				}
				e.Subscribe(pid)
				h.model[op.I] = true
				h.note("subscriber-respawned-under-the-id-of-one-that-left")
				continue
			}
			if h.model[op.I] {
				h.note("double-subscribe")
				if op.Copy {
					h.note("double-subscribe-distinct-object")
				}
			}
			e.Subscribe(pid)
			h.model[op.I] = true
		case "unsub":
			if s.gone {
				continue
			}
			if h.model[op.I] {
				h.note("unsubscribe")
				if op.Copy {
					h.note("unsubscribe-distinct-object")
				}
			}
			e.Unsubscribe(pid)
			h.model[op.I] = false
		case "bcast":
			e.BroadcastEvent(Ev{oi, 0, 0})
			h.add(exp{kind: "burst", phase: oi, burst: map[int]int{0: 1}})
			h.note("broadcast")
		case "burst":
			if op.G < 1 || op.G > 4 || op.N < 1 || op.N > 8 {
				return nil, nil
			}
			var wg sync.WaitGroup
			start := make(chan struct{})
			m := map[int]int{}
			for g := 0; g < op.G; g++ {
				m[g] = op.N
				wg.Add(1)
				go func(g int) {
					defer wg.Done()
					<-start
					for n := 0; n < op.N; n++ {
						e.BroadcastEvent(Ev{oi, g, n})
					}
				}(g)
			}
			close(start)
			wg.Wait()
			h.add(exp{kind: "burst", phase: oi, burst: m})
			if op.G > 1 {
				h.note("concurrent-broadcasters")
			}
		case "life":
			h.tmpN++
			// the kind of the temp actor: "tmp", or a kind that begins like the engine's own "response" kind
			tkind := "tmp"
			if op.Resp {
				tkind = "responses"
				h.note("temp-actor-of-a-kind-that-begins-with-response")
			}
			id := fmt.Sprintf("%s/%d", tkind, h.tmpN)
			pinged := make(chan struct{}, 4)
			withChild := op.DupChild && !op.Crash
			selfSend := op.SelfSend && !(op.Crash && op.PillBehind > 0)
			var crashing atomic.Bool // the Stopped told to a crashed incarnation is not the final one
			f := func(c *actor.Context) {
				switch m := c.Message().(type) {
				case actor.Started:
					if withChild {
						c.SpawnChildFunc(func(*actor.Context) {}, "kid", actor.WithID("0"))
					}
				case actor.Stopped:
					if selfSend && !crashing.Load() {
						c.Send(c.PID(), "from-stopped")
					}
				case string:
					if m == "crash" {
						panic("generated crash")
					}
					pinged <- struct{}{}
				case func(*actor.Context):
					m(c)
				}
			}
			die := op.Die && !op.Crash
			topts := []actor.OptFunc{actor.WithID(fmt.Sprint(h.tmpN)), actor.WithRestartDelay(0)}
			if die {
				topts = append(topts, actor.WithMaxRestarts(0))
			}
			tp := e.SpawnFunc(f, tkind, topts...)
			if withChild {
				// the child is started inside the parent's Started handler, i.e. before the parent's own event
				h.add(exp{kind: "life", text: "started:" + id + "/kid/0"})
			}
			h.add(exp{kind: "life", text: "started:" + id})
			if withChild {
				done := make(chan struct{})
				e.Send(tp, func(c *actor.Context) {
					c.SpawnChildFunc(func(*actor.Context) {}, "kid", actor.WithID("0"))
					close(done)
				})
				select {
				case <-done:
				case <-time.After(wait):
					return nil, fmt.Errorf("%w: temp actor did not spawn the duplicate child", errInconclusive)
				}
				h.add(exp{kind: "life", text: "duplicate:" + id + "/kid/0"})
				h.note("life-duplicate-child")
			}
			gone := false
			if op.Crash && op.PillBehind > 0 {
				gateIn, gateOut := make(chan struct{}), make(chan struct{})
				e.Send(tp, func(*actor.Context) { close(gateIn); <-gateOut })
				select {
				case <-gateIn:
				case <-time.After(wait):
					return nil, fmt.Errorf("%w: temp actor never reached the gate", errInconclusive)
				}
				e.Send(tp, "crash")
				var pctx interface{ Done() <-chan struct{} }
				if op.PillBehind == 1 {
					pctx = e.Poison(tp)
				} else {
					pctx = e.Stop(tp)
				}
				close(gateOut)
				select {
				case <-pctx.Done():
				case <-time.After(wait):
					return nil, fmt.Errorf("%w: stop request queued behind a crash not done", errInconclusive)
				}
				h.add(exp{kind: "life", text: "restarted(1):" + id})
				h.add(exp{kind: "life", text: "started:" + id})
				h.note("life-stop-request-in-the-replayed-tail")
				gone = true
			} else if op.Crash {
				crashing.Store(true)
				e.Send(tp, "crash")
				e.Send(tp, "ping")
				select {
				case <-pinged:
				case <-time.After(wait):
					return nil, fmt.Errorf("%w: restarted actor never answered", errInconclusive)
				}
				h.add(exp{kind: "life", text: "restarted(1):" + id})
				h.add(exp{kind: "life", text: "started:" + id})
				h.note("life-crash")
				crashing.Store(false)
			}
			if op.Dup && !gone {
				e.SpawnFunc(f, tkind, actor.WithID(fmt.Sprint(h.tmpN)))
				h.add(exp{kind: "life", text: "duplicate:" + id})
				h.note("life-duplicate")
			}
			if gone {
			} else if die {
				e.Send(tp, "crash")
				deadline := time.Now().Add(wait)
				for e.Registry.GetPID(tkind, fmt.Sprint(h.tmpN)) != nil {
					if time.Now().After(deadline) {
						return nil, fmt.Errorf("%w: a temp actor without restart budget is still registered after it crashed", errInconclusive)
					}
					time.Sleep(200 * time.Microsecond)
				}
				// Unregistered - but the clean-up goes on, on the actor's goroutine: the Stopped handler, then,
				// as its last act, ActorStoppedEvent.  Events of different goroutines are not ordered, so nothing
				// is broadcast from here before that event is out.  If it does not show, a stop request for the
				// actor tells when the clean-up has returned (its context is done no earlier), and a sentinel
				// broadcast after that is behind whatever the clean-up published.
				stoppedSeen := func() bool {
					for _, r := range h.anchor.log {
						if r.kind == "life" && r.text == "stopped:"+id {
							return true
						}
					}
					return false
				}
				if h.anchor.waitForD(20*time.Second, stoppedSeen) != nil {
					select {
					case <-e.Poison(tp).Done():
					case <-time.After(wait):
						return nil, fmt.Errorf("%w: poison of an actor that died of max-restarts not done", errInconclusive)
					}
					if err := h.barrier(); err != nil {
						return nil, err
					}
					h.anchor.mu.Lock()
					ok := stoppedSeen()
					h.anchor.mu.Unlock()
					if !ok {
						return nil, fmt.Errorf("op %d: %s died of max-restarts; its clean-up has returned (a stop request for it is done) and a sentinel broadcast after that has reached the subscriber, but no ActorStoppedEvent for it has", oi, id)
					}
					return nil, fmt.Errorf("%w: ActorStoppedEvent of %s took more than 20 s", errInconclusive, id)
				}
				h.note("life-death-by-max-restarts")
			} else {
				select {
				case <-e.Poison(tp).Done():
				case <-time.After(wait):
					return nil, fmt.Errorf("%w: poison of a temp actor not done", errInconclusive)
				}
			}
			if die {
				h.add(exp{kind: "life", text: "maxrestarts:" + id})
			}
			if withChild {
				h.add(exp{kind: "life", text: "stopped:" + id + "/kid/0"}) // children first
			}
			if selfSend {
				h.add(exp{kind: "dl", tgt: tp, snd: tp, msg: "from-stopped"})
				h.note("send-from-inside-the-Stopped-handler")
			}
			h.add(exp{kind: "life", text: "stopped:" + id})
			if op.Dead {
				e.Send(tp, "late")
				h.add(exp{kind: "dl", tgt: tp, msg: "late"})
				h.note("life-deadletter")
			}
			if op.Restop {
				if die {
					// An actor that died of max-restarts publishes ActorStoppedEvent a moment before its
					// clean-up returns; a stop request made in between is signalled by the clean-up instead
					// of being dead-lettered.  This request settles that: once its context is done the actor
					// is gone for good, and the request below finds nobody.
					select {
					case <-e.Poison(tp).Done():
					case <-time.After(5 * time.Second):
						return nil, fmt.Errorf("op %d: the context of a Poison for an actor that died of max-restarts never became done", oi)
					}
				}
				select {
				case <-e.Stop(tp).Done():
				case <-time.After(5 * time.Second):
					return nil, fmt.Errorf("op %d: the context of a Stop for an actor that is gone never became done", oi)
				}
				h.add(exp{kind: "dl", tgt: tp, msg: pillMarker{}})
				if die {
					// (the required one first: of one or two equal records the first satisfies it)
					h.add(exp{kind: "dl", tgt: tp, msg: pillMarker{}, opt: true})
				}
				h.note("life-stop-request-dead-letters")
			}
			h.note("lifecycle")
		case "send":
			if !c09 {
				continue
			}
			if op.Snd < 0 || op.Snd >= len(h.senders) {
				return nil, nil
			}
			snd := h.senders[op.Snd]
			msg := msgVal(op.Msg)
			var tgt *actor.PID
			isStop := op.Via == "stop" || op.Via == "poison"
			switch op.Tgt {
			case "nil":
			case "never":
				tgt = actor.NewPID(e.Address(), fmt.Sprintf("never/%d", op.Msg%3))
				if !isStop {
					h.add(exp{kind: "dl", tgt: tgt, snd: snd, msg: msg})
				}
			case "stopped":
				tgt = &actor.PID{Address: h.stopped.Address, ID: h.stopped.ID}
				if !isStop {
					h.add(exp{kind: "dl", tgt: tgt, snd: snd, msg: msg})
				}
			case "foreign":
				tgt = actor.NewPID("other:4000", fmt.Sprintf("far/%d", op.Msg%3))
				h.add(exp{kind: "rm", tgt: tgt, snd: snd, msg: msg})
			case "noaddr":
				// a PID without an address (the zero value, a hand-built one): its address is not this
				// engine's, so it is a foreign address like any other - also when the id is that of a live actor
				if isStop || op.Via == "local" {
					return nil, nil
				}
				tgt = &actor.PID{ID: h.live.ID}
				if op.Msg%2 == 0 {
					tgt = &actor.PID{ID: fmt.Sprintf("never/%d", op.Msg%3)}
				}
				h.add(exp{kind: "rm", tgt: tgt, snd: snd, msg: msg})
			case "live":
				tgt = h.live
			case "namesake":
				// a PID on ANOTHER address whose id equals the id of an actor that lives here: it names the
				// actor over there, not ours.  Without a remote: one EngineRemoteMissingEvent, nothing delivered.
				if isStop || op.Via == "local" {
					return nil, nil
				}
				tgt = actor.NewPID("other:4000", h.live.ID)
				h.add(exp{kind: "rm", tgt: tgt, snd: snd, msg: msg})
			default:
				return nil, nil
			}
			switch op.Via {
			case "":
			case "local":
				// SendLocal looks the id up whatever the address says, and reports a nil target too
				if op.Tgt == "foreign" {
					return nil, nil
				}
				if op.Tgt == "nil" {
					h.add(exp{kind: "dl", tgt: nil, snd: snd, msg: msg})
				}
				h.note("send-via-SendLocal")
			case "stop", "poison":
				if op.Tgt == "foreign" || op.Tgt == "live" {
					return nil, nil
				}
				h.add(exp{kind: "dl", tgt: tgt, snd: nil, msg: pillMarker{}})
				h.note("stop-request-for-an-absent-actor")
			default:
				return nil, nil
			}
			var stopCtx context.Context
			if p := protect(func() {
				switch {
				case op.Via == "local":
					e.SendLocal(tgt, msg, snd)
				case op.Via == "stop":
					stopCtx = e.Stop(tgt)
				case op.Via == "poison":
					stopCtx = e.Poison(tgt)
				case snd == nil && op.Msg%2 == 0:
					e.Send(tgt, msg)
				default:
					e.SendWithSender(tgt, msg, snd)
				}
			}); p != nil {
				return nil, fmt.Errorf("op %d: sending (%s) to a %s target panicked: %v", oi, op.Via, op.Tgt, p)
			}
			if stopCtx != nil {
				// nobody is left who could complete this context later: it is done now or never
				select {
				case <-stopCtx.Done():
				case <-time.After(5 * time.Second):
					return nil, fmt.Errorf("op %d: the context of a %s for a %s target never became done", oi, op.Via, op.Tgt)
				}
			}
			if op.Tgt == "namesake" || (op.Tgt == "noaddr" && tgt.ID == h.live.ID) {
				// a probe sent directly to the local actor afterwards: it must be the next thing it gets
				e.Send(h.live, "probe-after-namesake")
				select {
				case got := <-h.liveGot:
					if got != "probe-after-namesake" {
						return nil, fmt.Errorf("op %d: a message for %v (another address) was delivered to the local actor with the same id: it got %v", oi, tgt, got)
					}
				case <-time.After(wait):
					return nil, fmt.Errorf("%w: live control actor got nothing", errInconclusive)
				}
			}
			if op.Tgt == "live" {
				select {
				case got := <-h.liveGot:
					if !reflect.DeepEqual(got, msg) {
						return nil, fmt.Errorf("harness: live control actor got %v want %v", got, msg)
					}
				case <-time.After(wait):
					return nil, fmt.Errorf("%w: live control actor got nothing", errInconclusive)
				}
			}
			h.note("send-" + op.Tgt)
		case "heir":
			// The subscriber stops, and from inside its Stopped handler a successor is spawned under the
			// same kind and id and subscribed (the id is free again by then).  The successor is a current
			// subscriber from that moment on: it gets its predecessor's ActorStoppedEvent and everything
			// that follows, each once.
			if s.gone {
				continue
			}
			if err := h.barrier(); err != nil {
				return nil, err
			}
			idx := op.I
			s.mu.Lock()
			s.heir = func(c *actor.Context) {
				np := c.Engine().SpawnFunc(s.receive, "sub", actor.WithID(fmt.Sprint(idx)))
				c.Engine().Subscribe(np)
			}
			s.mu.Unlock()
			select {
			case <-e.Poison(s.pid).Done():
			case <-time.After(wait):
				return nil, fmt.Errorf("%w: poison of a subscriber not done", errInconclusive)
			}
			if p := e.Registry.GetPID("sub", fmt.Sprint(idx)); p == nil {
				return nil, fmt.Errorf("harness: the successor of sub/%d is not registered", idx)
			}
			h.model[op.I] = true
			// an event that the event stream was still forwarding to the predecessor when it unregistered
			// is a dead letter addressed to this id (allowed, like for any subscriber that left)
			h.departed[s.pid.ID] = true
			h.add(exp{kind: "life", text: "stopped:" + s.pid.ID})
			h.note("successor-under-the-same-id-subscribed-from-Stopped")
		case "subforeign":
			// a subscriber on another node, on an engine that has no remote: nothing can be forwarded to it.
			// Whatever the stream does about that (an EngineRemoteMissingEvent per attempt is an event again)
			// must come to an end: the finiteness rounds below decide.
			fp := actor.NewPID("other:4000", fmt.Sprintf("far/sub%d", op.I))
			e.Subscribe(fp)
			h.departed[fp.ID] = true
			h.note("subscriber-with-a-foreign-address")
		case "stopsub":
			if s.gone {
				continue
			}
			// the subscriber leaves without unsubscribing; flush it first so that its log is complete
			if err := h.barrier(); err != nil {
				return nil, err
			}
			select {
			case <-e.Poison(s.pid).Done():
			case <-time.After(wait):
				return nil, fmt.Errorf("%w: poison of a subscriber not done", errInconclusive)
			}
			s.gone = true
			// its ActorStoppedEvent is an engine event like any other: every remaining subscriber gets it once
			h.add(exp{kind: "life", text: "stopped:" + s.pid.ID})
			if h.model[op.I] {
				h.departed[s.pid.ID] = true
				h.note("departed-subscriber")
			}
		default:
			return nil, nil
		}
	}
	if err := h.barrier(); err != nil {
		return nil, err
	}
	// finiteness: the number of events must stop growing. Dead letters addressed to a departed
	// subscriber are themselves undeliverable sends, so they are allowed - but they must die out.
	quiet := false
	prev := -1
	for round := 0; round < 10; round++ {
		total := 0
		for _, s := range append([]*subscriber{h.anchor}, h.subs...) {
			s.mu.Lock()
			total += len(s.log)
			s.mu.Unlock()
		}
		if total == prev {
			quiet = true
			break
		}
		prev = total
		if err := h.barrier(); err != nil {
			return nil, err
		}
	}
	if !quiet {
		return nil, fmt.Errorf("a finite history keeps producing events: the subscribers' logs still grow after 10 sentinel rounds (last total %d)", prev)
	}
	for i, s := range h.subs {
		s.mu.Lock()
		log := append([]rec(nil), s.log...)
		s.mu.Unlock()
		if err := h.compare(i, log, h.expect[i]); err != nil {
			return nil, err
		}
	}
	return h.feat, nil
}

func (h *harness) compare(i int, log []rec, want []exp) error {
	name := fmt.Sprintf("subscriber %d", i)
	li := 0
	next := func() *rec {
		for li < len(log) {
			r := &log[li]
			li++
			if (r.kind == "dl" || r.kind == "rm") && r.tgt != nil && h.departed[r.tgt.ID] {
				continue // an event forwarded to a subscriber that left / that nobody can reach: allowed, bounded above
			}
			if r.kind == "life" && !strings.Contains(r.text, ":tmp/") && !strings.Contains(r.text, ":responses/") && !strings.HasPrefix(r.text, "stopped:sub/") {
				continue // lifecycle of the harness's own actors (a subscriber that leaves is part of the history)
			}
			return r
		}
		return nil
	}
	for wi, w := range want {
		switch w.kind {
		case "burst":
			seen := map[int]int{}
			total := 0
			for _, k := range w.burst {
				total += k
			}
			for j := 0; j < total; j++ {
				r := next()
				if r == nil {
					return fmt.Errorf("%s missed an event of op %d broadcast while it was subscribed: got %d of %d events (expectation %d of %d)", name, w.phase, j, total, wi, len(want))
				}
				if r.kind != "ev" || r.phase != w.phase {
					return fmt.Errorf("%s: expected an event of op %d, got %v (lost, duplicated or reordered)", name, w.phase, *r)
				}
				if r.n != seen[r.g] || r.n >= w.burst[r.g] {
					return fmt.Errorf("%s: broadcaster %d of op %d: expected its event #%d next, got #%d (duplicate, loss or reordering)", name, r.g, w.phase, seen[r.g], r.n)
				}
				seen[r.g]++
			}
		default:
			r := next()
			we := rec{kind: w.kind, text: w.text, tgt: w.tgt, snd: w.snd, msg: w.msg}
			if r == nil && w.opt {
				continue
			}
			if r == nil {
				return fmt.Errorf("%s never received %v (expectation %d of %d)", name, we, wi, len(want))
			}
			ok := r.kind == w.kind && r.text == w.text
			if ok && (w.kind == "dl" || w.kind == "rm") {
				ok = samePID(r.tgt, w.tgt) && samePID(r.snd, w.snd)
				if _, pill := w.msg.(pillMarker); pill {
					ok = ok && fmt.Sprintf("%T", r.msg) == "actor.poisonPill"
				} else {
					ok = ok && reflect.DeepEqual(r.msg, w.msg)
				}
			}
			if !ok && w.opt {
				li-- // not this record: the optional occurrence did not happen
				continue
			}
			if !ok {
				return fmt.Errorf("%s: expected %v, got %v", name, we, *r)
			}
		}
	}
	if r := next(); r != nil {
		return fmt.Errorf("%s received %v which was not broadcast while it was subscribed (after unsubscribe, duplicated, or never sent)", name, *r)
	}
	return nil
}

// ---- generators ------------------------------------------------------------------------

func genCase(t *rapid.T, c09 bool) Case {
	c := Case{Subs: rapid.IntRange(1, 4).Draw(t, "subs")}
	n := rapid.IntRange(1, 14).Draw(t, "nops")
	kinds := []string{"sub", "sub", "sub", "unsub", "unsub", "bcast", "bcast", "bcast", "burst", "burst", "life", "life", "heir", "stopsub"}
	if c09 {
		kinds = []string{"sub", "sub", "unsub", "bcast", "send", "send", "send", "send", "stopsub", "life", "heir", "subforeign"}
	}
	for i := 0; i < n; i++ {
		op := Op{K: rapid.SampledFrom(kinds).Draw(t, "k")}
		switch op.K {
		case "sub", "unsub", "stopsub", "heir", "subforeign":
			op.I = rapid.IntRange(0, c.Subs-1).Draw(t, "i")
			if op.K != "stopsub" && op.K != "heir" {
				op.Copy = rapid.Bool().Draw(t, "copy")
			}
		case "burst":
			op.G = rapid.IntRange(1, 4).Draw(t, "g")
			op.N = rapid.IntRange(1, 8).Draw(t, "n")
		case "life":
			op.Crash, op.Dup, op.Dead = rapid.Bool().Draw(t, "crash"), rapid.Bool().Draw(t, "dup"), rapid.Bool().Draw(t, "dead")
			op.Restop = rapid.IntRange(0, 2).Draw(t, "restop") == 0
			op.DupChild = rapid.IntRange(0, 2).Draw(t, "dupchild") == 0
			op.SelfSend = rapid.IntRange(0, 2).Draw(t, "selfsend") == 0
			op.Die = rapid.IntRange(0, 3).Draw(t, "die") == 0
			op.Resp = rapid.IntRange(0, 3).Draw(t, "resp") == 0
			if op.Crash {
				op.PillBehind = rapid.SampledFrom([]int{0, 0, 1, 2}).Draw(t, "pillbehind")
			}
		case "send":
			op.Tgt = rapid.SampledFrom([]string{"nil", "never", "never", "stopped", "stopped", "foreign", "foreign", "live", "namesake", "noaddr"}).Draw(t, "tgt")
			op.Snd = rapid.IntRange(0, 4).Draw(t, "snd")
			op.Msg = rapid.IntRange(0, 13).Draw(t, "msg")
			switch op.Tgt {
			case "nil", "never", "stopped":
				op.Via = rapid.SampledFrom([]string{"", "", "", "local", "stop", "poison"}).Draw(t, "via")
			case "live":
				op.Via = rapid.SampledFrom([]string{"", "", "local"}).Draw(t, "via")
			}
		}
		c.Ops = append(c.Ops, op)
	}
	return c
}

func property(t *rapid.T, st *vh.T, c09 bool, nontrivial func(map[string]int) bool) {
	c := genCase(t, c09)
	st.Begin(c)
	feat, err := run(c, c09)
	if errors.Is(err, errInconclusive) || (err != nil && strings.HasPrefix(err.Error(), "harness: ")) {
		if st.Failed() > 0 {
			return
		}
		t.Fatalf("harness: %v", err)
	}
	if err != nil {
		st.Fail(c, err)
		t.Fatalf("%v", err)
	}
	var labels []string
	for k := range feat {
		labels = append(labels, k)
	}
	st.Done(c, nontrivial(feat), labels...)
}

func TestEventStream(t *testing.T) {
	st := vh.Test("TestEventStream")
	rapid.Check(t, func(t *rapid.T) {
		property(t, st, false, func(f map[string]int) bool {
			return (f["unsubscribe"] > 0 || f["double-subscribe-distinct-object"] > 0) && (f["broadcast"] > 0 || f["concurrent-broadcasters"] > 0 || f["lifecycle"] > 0)
		})
	})
}

func TestDeadLetters(t *testing.T) {
	st := vh.Test("TestDeadLetters")
	rapid.Check(t, func(t *rapid.T) {
		property(t, st, true, func(f map[string]int) bool {
			classes := 0
			for _, k := range []string{"send-nil", "send-never", "send-stopped", "send-foreign"} {
				if f[k] > 0 {
					classes++
				}
			}
			return f["observed-by-a-monitor"] > 0 && (classes >= 2 || (classes >= 1 && f["departed-subscriber"] > 0))
		})
	})
}

func replayer(c09 bool) func(json.RawMessage) error {
	return func(raw json.RawMessage) error {
		var c Case
		if err := json.Unmarshal(raw, &c); err != nil {
			return err
		}
		_, err := run(c, c09)
		return err
	}
}

func init() {
	vh.RegisterReplay("TestEventStream", replayer(false))
	vh.RegisterReplay("TestDeadLetters", replayer(true))
}
