// C05 with a restart delay and a second sender: "the messages that were queued behind the failed one
// are delivered to [the fresh receiver] in their original order, exactly once and AHEAD OF ANYTHING
// SENT LATER".  The model-exact leg (TestCrashReplay) runs with RestartDelay 0 and one driver; here the
// actor sleeps out a real restart delay on its worker goroutine while another goroutine - woken by
// the Stopped that the failed incarnation is told - keeps sending.  The oracle is an order relation,
// not a timing: whatever was sent after the crash was observed must come behind the complete tail of
// the failed batch, also when the tail itself crashes again during its replay.
package c05

import (
	"encoding/json"
	"errors"
	"fmt"
	"strings"
	"sync"
	"testing"
	"time"

	"github.com/anthdm/hollywood/actor"
	"pgregory.net/rapid"

	"verif/internal/vh"
)

type DCase struct {
	K       int   `json:"k"`        // messages queued in one batch behind a gate
	Panics  []int `json:"panics"`   // positions (0-based, ascending) whose first delivery panics
	Budget  int   `json:"budget"`   // MaxRestarts (>= len(Panics))
	DelayMs int   `json:"delay_ms"` // RestartDelay
	During  int   `json:"during"`   // messages sent by the second sender as soon as it sees a crash (per crash)
	After   int   `json:"after"`    // messages sent once the last fresh receiver is started
	Inbox   int   `json:"inbox"`
}

type dm struct {
	Phase string // batch | during | after | gate | end
	N     int
}

var errHarness = errors.New("harness")

func runDelay(c DCase) (map[string]int, error) {
	if c.K < 1 || c.K > 40 || len(c.Panics) < 1 || len(c.Panics) > 3 || c.Budget < len(c.Panics) || c.Budget > 4 || c.DelayMs < 0 || c.DelayMs > 50 || c.During < 0 || c.During > 8 || c.After < 0 || c.After > 8 || c.Inbox < 1 {
		return nil, nil
	}
	for i, p := range c.Panics {
		if p < 0 || p >= c.K || (i > 0 && p <= c.Panics[i-1]) {
			return nil, nil
		}
	}
	e, err := actor.NewEngine(actor.NewEngineConfig())
	if err != nil {
		return nil, fmt.Errorf("%w: %v", errHarness, err)
	}
	var (
		mu       sync.Mutex
		log      []string // "inc:phase:n"
		inc      int
		panicked = map[int]bool{}
		gateIn   = make(chan struct{}, 1)
		gateOut  = make(chan struct{})
		crashed  = make(chan int, 8)  // a failed incarnation was told Stopped
		started  = make(chan int, 16) // an incarnation handled Started
		end      = make(chan struct{}, 1)
		restarts []int32
		monDone  = make(chan struct{}, 1)
	)
	isPanic := map[int]bool{}
	for _, p := range c.Panics {
		isPanic[p] = true
	}
	mon := e.SpawnFunc(func(ctx *actor.Context) {
		switch ev := ctx.Message().(type) {
		case actor.ActorRestartedEvent:
			if ev.PID.ID == "tgt/1" {
				mu.Lock()
				restarts = append(restarts, ev.Restarts)
				mu.Unlock()
			}
		case dm:
			monDone <- struct{}{}
		}
	}, "mon")
	e.Subscribe(mon)
	pid := e.Spawn(func() actor.Receiver {
		mu.Lock()
		inc++
		me := inc
		mu.Unlock()
		return recvFn(func(ctx *actor.Context) {
			switch m := ctx.Message().(type) {
			case actor.Started:
				started <- me
			case actor.Stopped:
				crashed <- me
			case dm:
				switch m.Phase {
				case "gate":
					gateIn <- struct{}{}
					<-gateOut
					return
				case "end":
					end <- struct{}{}
					return
				}
				mu.Lock()
				log = append(log, fmt.Sprintf("%d:%s:%d", me, m.Phase, m.N))
				first := m.Phase == "batch" && isPanic[m.N] && !panicked[m.N]
				if first {
					panicked[m.N] = true
				}
				mu.Unlock()
				if first {
					panic(fmt.Sprintf("generated crash on batch message %d", m.N))
				}
			}
		})
	}, "tgt", actor.WithID("1"), actor.WithMaxRestarts(c.Budget), actor.WithRestartDelay(time.Duration(c.DelayMs)*time.Millisecond), actor.WithInboxSize(c.Inbox))
	// ---- expected: incarnation i handles the batch from just behind the previous failure up to and
	// including its own failure; the last one handles the rest of the batch, then everything sent
	// later: all `during` messages in order, then all `after` messages in order
	var want []string
	{
		incN, pos := 1, 0
		for _, p := range c.Panics {
			for ; pos <= p; pos++ {
				want = append(want, fmt.Sprintf("%d:batch:%d", incN, pos))
			}
			incN++
		}
		for ; pos < c.K; pos++ {
			want = append(want, fmt.Sprintf("%d:batch:%d", incN, pos))
		}
		for i := 0; i < c.During*len(c.Panics); i++ {
			want = append(want, fmt.Sprintf("during:%d", i))
		}
		for i := 0; i < c.After; i++ {
			want = append(want, fmt.Sprintf("after:%d", i))
		}
	}
	// `during`/`after` messages may be handled by whichever incarnation is current when they are popped;
	// only their position relative to the batch and to each other is stated by the property
	strip := func(l []string) []string {
		out := make([]string, len(l))
		for i, s := range l {
			out[i] = s
			if strings.Contains(s, ":during:") || strings.Contains(s, ":after:") {
				out[i] = s[strings.Index(s, ":")+1:]
			}
		}
		return out
	}
	// what has been delivered so far must at any time be a prefix of the expected sequence: a wrong
	// order is a verdict even if the run then gets stuck; only a correct prefix that stops growing is
	// a timeout
	prefixErr := func() error {
		mu.Lock()
		g := strip(append([]string(nil), log...))
		mu.Unlock()
		for i, x := range g {
			if i >= len(want) || x != want[i] {
				return fmt.Errorf("deliveries (incarnation:phase:n) differ at position %d: the tail of the failed batch must reach the fresh receiver once, in order, without the failed message, ahead of everything sent after the crash\n got so far: %v\n want:       %v", i, g, want)
			}
		}
		return nil
	}
	const limit = 45 * time.Second
	wait := func(ch <-chan int, what string) (int, error) {
		select {
		case v := <-ch:
			return v, nil
		case <-time.After(limit):
			if err := prefixErr(); err != nil {
				return 0, err
			}
			return 0, fmt.Errorf("%w: bounded wait expired: %s", errHarness, what)
		}
	}
	if _, err := wait(started, "first Started"); err != nil {
		return nil, err
	}
	e.Send(pid, dm{Phase: "gate"})
	select {
	case <-gateIn:
	case <-time.After(30 * time.Second):
		return nil, fmt.Errorf("%w: bounded wait expired: gate", errHarness)
	}
	for i := 0; i < c.K; i++ {
		e.Send(pid, dm{Phase: "batch", N: i})
	}
	// the second sender: after every crash it sees it sends `During` messages at once - the actor
	// is sitting out its restart delay, or replaying, or already back: the order must not care
	var wg sync.WaitGroup
	wg.Add(1)
	sendErr := make(chan error, 1)
	go func() {
		defer wg.Done()
		n := 0
		for k := 0; k < len(c.Panics); k++ {
			if _, err := wait(crashed, fmt.Sprintf("Stopped of the incarnation that failed on batch message %d", c.Panics[k])); err != nil {
				sendErr <- err
				return
			}
			for i := 0; i < c.During; i++ {
				e.Send(pid, dm{Phase: "during", N: n})
				n++
			}
			if _, err := wait(started, "Started of the fresh receiver"); err != nil {
				sendErr <- err
				return
			}
		}
		for i := 0; i < c.After; i++ {
			e.Send(pid, dm{Phase: "after", N: i})
		}
		e.Send(pid, dm{Phase: "end"})
	}()
	close(gateOut)
	wg.Wait()
	select {
	case err := <-sendErr:
		return nil, err
	default:
	}
	select {
	case <-end:
	case <-time.After(limit):
		if err := prefixErr(); err != nil {
			return nil, err
		}
		return nil, fmt.Errorf("%w: bounded wait expired: the end marker was never handled", errHarness)
	}
	e.BroadcastEvent(dm{Phase: "fence"})
	select {
	case <-monDone:
	case <-time.After(30 * time.Second):
		return nil, fmt.Errorf("%w: bounded wait expired: monitor fence", errHarness)
	}
	mu.Lock()
	got := append([]string(nil), log...)
	rs := append([]int32(nil), restarts...)
	mu.Unlock()
	g := strip(got)
	if strings.Join(g, " ") != strings.Join(want, " ") {
		return nil, fmt.Errorf("deliveries (incarnation:phase:n) differ: the tail of the failed batch must reach the fresh receiver once, in order, without the failed message, ahead of everything sent after the crash\n got:  %v\n want: %v", g, want)
	}
	if len(rs) != len(c.Panics) {
		return nil, fmt.Errorf("%d ActorRestartedEvents, want %d", len(rs), len(c.Panics))
	}
	for i, r := range rs {
		if int(r) != i+1 {
			return nil, fmt.Errorf("ActorRestartedEvent #%d carries Restarts=%d", i+1, r)
		}
	}
	e.Unsubscribe(mon)
	<-e.Poison(pid).Done()
	<-e.Poison(mon).Done()
	feat := map[string]int{}
	if len(c.Panics) >= 2 {
		feat["failure-during-replay-of-the-tail"]++
	}
	if c.During > 0 {
		feat["sends-while-the-actor-sits-out-its-restart-delay"]++
	}
	if c.DelayMs > 0 {
		feat["non-zero-restart-delay"]++
	}
	return feat, nil
}

type recvFn func(*actor.Context)

func (r recvFn) Receive(c *actor.Context) { r(c) }

func TestRestartDelay(t *testing.T) {
	st := vh.Test("TestRestartDelay")
	rapid.Check(t, func(t *rapid.T) {
		c := DCase{
			K:       rapid.IntRange(1, 12).Draw(t, "k"),
			DelayMs: rapid.SampledFrom([]int{0, 1, 5, 20}).Draw(t, "delay"),
			During:  rapid.IntRange(0, 5).Draw(t, "during"),
			After:   rapid.IntRange(0, 4).Draw(t, "after"),
			Inbox:   rapid.SampledFrom([]int{1, 2, 4, 1024}).Draw(t, "inbox"),
		}
		np := rapid.IntRange(1, min(3, c.K)).Draw(t, "npanics")
		c.Panics = rapid.SliceOfNDistinct(rapid.IntRange(0, c.K-1), np, np, rapid.ID[int]).Draw(t, "panics")
		sortInts(c.Panics)
		c.Budget = rapid.IntRange(len(c.Panics), 4).Draw(t, "budget")
		st.Begin(c)
		feat, err := runDelay(c)
		if errors.Is(err, errHarness) {
			if st.Failed() > 0 {
				return
			}
			t.Fatalf("harness: %v", err)
		}
		if err != nil {
			st.Fail(c, err)
			t.Fatalf("%v", err)
		}
		var labels []string
		for k := range feat {
			labels = append(labels, k)
		}
		st.Done(c, c.During > 0 && c.DelayMs > 0, labels...)
	})
}

func sortInts(a []int) {
	for i := 1; i < len(a); i++ {
		for j := i; j > 0 && a[j] < a[j-1]; j-- {
			a[j], a[j-1] = a[j-1], a[j]
		}
	}
}

func init() {
	vh.RegisterReplay("TestRestartDelay", func(raw json.RawMessage) error {
		var c DCase
		if err := json.Unmarshal(raw, &c); err != nil {
			return err
		}
		for i := 0; i < 5; i++ {
			if _, err := runDelay(c); err != nil {
				return err
			}
		}
		return nil
	})
}
