// C05: a panicking Receive is contained and the actor resumes behind it.
package c05

import (
	"testing"

	"pgregory.net/rapid"

	"verif/internal/life"
	"verif/internal/vh"
)

func TestMain(m *testing.M)   { vh.Main(m) }
func TestReplay(t *testing.T) { vh.Replay(t) }

var profile = life.Profile{
	MaxOps: 24, WSend: 8, WPanic: 5, WGate: 3, WRelease: 3, WPoison: 1, WStop: 1, WRespawn: 1, WBurst: 1,
	MaxChain: 1, MaxChildren: 0, Lifecycle: true, SpawnSends: false, MaxBudget: 4, BigBurst: true,
}

func nontrivial(f life.Features) bool {
	return f.MidBatchCrash || f.Crashes >= 2 || f.CrashInReplay
}

func TestCrashReplay(t *testing.T) {
	st := vh.Test("TestCrashReplay")
	rapid.Check(t, func(t *rapid.T) {
		spec, _ := life.Normalize(life.Gen(t, profile), false)
		life.Property(t, st, spec, false, life.CheckC05, nontrivial)
	})
}

func init() {
	vh.RegisterReplay("TestCrashReplay", life.Replayer(false, life.CheckC05))
}
