// C06, family leg: an actor that exhausts its restart budget while it has children that are
// busy, and that may exhaust budgets of their own while the dying parent waits for them.
// "The actor (and its children) are stopped and unregistered": the single-actor histories of
// internal/life only have idle children; here the children have queues, crashes and budgets.
package c06

import (
	"encoding/json"
	"errors"
	"fmt"
	"strings"
	"sync"
	"testing"
	"time"

	"github.com/anthdm/hollywood/actor"
	"pgregory.net/rapid"

	"verif/internal/vh"
)

var errFamInconclusive = errors.New("harness: bounded wait expired")

const (
	famWait  = 30 * time.Second // harness barriers: expiry = inconclusive
	famGrace = 10 * time.Second // after an independent barrier only goroutine scheduling is left (DESIGN 1.3 rule 2): expiry = verdict
)

type FKid struct {
	Budget  int  `json:"budget"`            // MaxRestarts of the child
	Busy    bool `json:"busy,omitempty"`    // holds a gate while the parent dies
	Crashes int  `json:"crashes,omitempty"` // panicking messages queued for it before the parent dies
	Queue   int  `json:"queue,omitempty"`   // plain messages queued between / behind them
}

type FCase struct {
	Budget  int    `json:"budget"` // MaxRestarts of the parent
	Kids    []FKid `json:"kids"`
	Hold    int    `json:"hold,omitempty"`     // how long the gates stay shut after the parent's death was announced: 0 none, 1 yield, 2 a millisecond
	InStart bool   `json:"in_start,omitempty"` // the parent's last panic is in the Started handler of its last incarnation
}

type fGate struct{ ch chan struct{} }
type fCrash struct{}
type fUser struct{ N int }
type fProbe struct{ N int }
type fPing struct{}

type fRecv func(*actor.Context)

func (r fRecv) Receive(c *actor.Context) { r(c) }

type famMon struct {
	mu       sync.Mutex
	exceeded map[string]int
	restarts map[string]int
	stopped  map[string]int
	dead     map[string][]actor.DeadLetterEvent
	sig      chan struct{} // poked on every event
}

func (m *famMon) get(f func()) { m.mu.Lock(); f(); m.mu.Unlock() }

// waitFor polls cond (under the lock) until it holds; the monitor pokes sig on every event.
func (m *famMon) waitFor(d time.Duration, cond func() bool) bool {
	deadline := time.After(d)
	for {
		m.mu.Lock()
		ok := cond()
		m.mu.Unlock()
		if ok {
			return true
		}
		select {
		case <-m.sig:
		case <-time.After(20 * time.Millisecond):
		case <-deadline:
			return false
		}
	}
}

func runFamily(c FCase) (map[string]int, error) {
	feat := map[string]int{}
	e, err := actor.NewEngine(actor.NewEngineConfig())
	if err != nil {
		return nil, fmt.Errorf("harness: %v", err)
	}
	m := &famMon{exceeded: map[string]int{}, restarts: map[string]int{}, stopped: map[string]int{}, dead: map[string][]actor.DeadLetterEvent{}, sig: make(chan struct{}, 1)}
	monReady := make(chan struct{})
	mon := e.SpawnFunc(func(ctx *actor.Context) {
		m.mu.Lock()
		switch ev := ctx.Message().(type) {
		case actor.Started:
			close(monReady)
		case actor.ActorMaxRestartsExceededEvent:
			m.exceeded[ev.PID.ID]++
		case actor.ActorRestartedEvent:
			m.restarts[ev.PID.ID]++
		case actor.ActorStoppedEvent:
			m.stopped[ev.PID.ID]++
		case actor.DeadLetterEvent:
			if ev.Target != nil {
				m.dead[ev.Target.ID] = append(m.dead[ev.Target.ID], ev)
			}
		}
		m.mu.Unlock()
		select {
		case m.sig <- struct{}{}:
		default:
		}
	}, "fammon")
	select {
	case <-monReady:
	case <-time.After(famWait):
		return nil, fmt.Errorf("%w: monitor not started", errFamInconclusive)
	}
	e.Subscribe(mon)
	defer func() { e.Unsubscribe(mon); e.Poison(mon) }()
	// bystander
	pong := make(chan struct{}, 4)
	by := e.SpawnFunc(func(ctx *actor.Context) {
		if _, ok := ctx.Message().(fPing); ok {
			pong <- struct{}{}
		}
	}, "bystander")
	defer e.Poison(by)

	n := len(c.Kids)
	var (
		hmu       sync.Mutex
		seq       int
		kidStops  = make([]int, n) // Stopped deliveries per child
		kidLast   = make([]int, n) // stamp of the latest one
		kidUser   = make([]int, n)
		parStops  int
		parLast   int
		parStarts int
	)
	kidPIDs := make([]*actor.PID, n)
	entered := make([]chan struct{}, n)
	kid := func(i int) actor.Producer {
		return func() actor.Receiver {
			return fRecv(func(ctx *actor.Context) {
				switch msg := ctx.Message().(type) {
				case fGate:
					close(entered[i])
					<-msg.ch
				case fCrash:
					panic("generated crash of a child")
				case fUser:
					hmu.Lock()
					kidUser[i]++
					hmu.Unlock()
				case actor.Stopped:
					hmu.Lock()
					seq++
					kidStops[i]++
					kidLast[i] = seq
					hmu.Unlock()
				}
			})
		}
	}
	built := make(chan struct{})
	var buildOnce sync.Once
	parent := e.Spawn(func() actor.Receiver {
		return fRecv(func(ctx *actor.Context) {
			switch ctx.Message().(type) {
			case actor.Started:
				hmu.Lock()
				parStarts++
				k := parStarts
				hmu.Unlock()
				if k == 1 {
					for i := range c.Kids {
						entered[i] = make(chan struct{})
						kidPIDs[i] = ctx.SpawnChild(kid(i), "kid", actor.WithID(fmt.Sprint(i)), actor.WithMaxRestarts(c.Kids[i].Budget), actor.WithRestartDelay(0), actor.WithInboxSize(4))
					}
					buildOnce.Do(func() { close(built) })
				}
				if c.InStart && k == c.Budget+1 && c.Budget > 0 {
					panic("generated crash of the parent in Started")
				}
			case fCrash:
				panic("generated crash of the parent")
			case actor.Stopped:
				hmu.Lock()
				seq++
				parStops++
				parLast = seq
				hmu.Unlock()
			}
		})
	}, "fam", actor.WithID("p"), actor.WithMaxRestarts(c.Budget), actor.WithRestartDelay(0))
	select {
	case <-built:
	case <-time.After(famWait):
		return nil, fmt.Errorf("%w: family not built", errFamInconclusive)
	}
	// ---- the children get their work: a gate (busy ones), then crashes with plain messages between
	var gates []chan struct{}
	for i, k := range c.Kids {
		if k.Busy {
			g := make(chan struct{})
			gates = append(gates, g)
			e.Send(kidPIDs[i], fGate{g})
			select {
			case <-entered[i]:
			case <-time.After(famWait):
				return nil, fmt.Errorf("%w: child %d did not reach its gate", errFamInconclusive, i)
			}
		}
		q := k.Queue
		for j := 0; j < k.Crashes; j++ {
			e.Send(kidPIDs[i], fCrash{})
			if q > 0 {
				e.Send(kidPIDs[i], fUser{j})
				q--
			}
		}
		for ; q > 0; q-- {
			e.Send(kidPIDs[i], fUser{-1})
		}
		if k.Busy && k.Crashes > k.Budget {
			feat["busy-child-that-will-exhaust-its-own-budget"]++
		}
		if k.Busy {
			feat["busy-child"]++
		}
		if !k.Busy && k.Crashes > k.Budget {
			feat["child-dies-of-max-restarts-before-the-parent"]++
		}
	}
	// ---- the parent exhausts its budget
	msgs := c.Budget + 1
	if c.InStart && c.Budget > 0 {
		msgs = c.Budget // the last incarnation dies in Started
		feat["parent-dies-in-Started"]++
	}
	for j := 0; j < msgs; j++ {
		e.Send(parent, fCrash{})
	}
	if !m.waitFor(famWait, func() bool { return m.exceeded["fam/p"] > 0 }) {
		// the announcement precedes the clean-up; without it nothing below can be judged
		return nil, fmt.Errorf("%w: no ActorMaxRestartsExceededEvent for the parent", errFamInconclusive)
	}
	switch c.Hold {
	case 1:
		for i := 0; i < 50; i++ {
			time.Sleep(0)
		}
	case 2:
		time.Sleep(time.Millisecond)
	}
	for _, g := range gates {
		close(g)
	}
	// ---- barrier, independent of the parent: every child has finished stopping (ActorStoppedEvent is
	// the last thing a stopping actor does).  A child that does not get there is not this leg's verdict.
	kidID := func(i int) string { return fmt.Sprintf("fam/p/kid/%d", i) }
	if !m.waitFor(famWait, func() bool {
		for i := range c.Kids {
			if m.stopped[kidID(i)] == 0 {
				return false
			}
		}
		return true
	}) {
		return nil, fmt.Errorf("%w: not every child published ActorStoppedEvent", errFamInconclusive)
	}
	// from here on the parent has nobody to wait for
	if !m.waitFor(famGrace, func() bool { return m.stopped["fam/p"] > 0 }) {
		return nil, fmt.Errorf("the parent exceeded MaxRestarts=%d and all its %d children have stopped, but %v later it has not finished stopping (registered: %v)",
			c.Budget, n, famGrace, e.Registry.GetPID("fam", "p") != nil)
	}
	// ---- stopped and unregistered
	if e.Registry.GetPID("fam", "p") != nil {
		return nil, fmt.Errorf("the parent published ActorStoppedEvent after exceeding MaxRestarts but is still registered")
	}
	for i := range c.Kids {
		if e.Registry.GetPID("fam/p/kid", fmt.Sprint(i)) != nil {
			return nil, fmt.Errorf("child %d of an actor that exceeded MaxRestarts is still registered", i)
		}
	}
	// ---- later sends dead-letter, exactly once; the sentinel closes the count (one sender, FIFO)
	e.Send(parent, fProbe{-1})
	for i := range c.Kids {
		e.Send(kidPIDs[i], fProbe{i})
	}
	e.Send(actor.NewPID(e.Address(), "fam/never"), fProbe{99})
	if !m.waitFor(famGrace, func() bool { return len(m.dead["fam/never"]) > 0 }) {
		return nil, fmt.Errorf("a message sent to an id that was never spawned did not dead-letter within %v", famGrace)
	}
	var verdict error
	m.get(func() {
		count := func(id string, want int) int {
			k := 0
			for _, d := range m.dead[id] {
				if p, ok := d.Message.(fProbe); ok && p.N == want {
					k++
				}
			}
			return k
		}
		if k := count("fam/p", -1); k != 1 {
			verdict = fmt.Errorf("a message sent to the parent after it exceeded MaxRestarts and stopped produced %d DeadLetterEvents, want 1", k)
			return
		}
		for i := range c.Kids {
			if k := count(kidID(i), i); k != 1 {
				verdict = fmt.Errorf("a message sent to child %d after the family stopped produced %d DeadLetterEvents, want 1", i, k)
				return
			}
		}
		if m.exceeded["fam/p"] != 1 {
			verdict = fmt.Errorf("%d ActorMaxRestartsExceededEvents for the parent, want 1", m.exceeded["fam/p"])
			return
		}
		if m.restarts["fam/p"] != c.Budget {
			verdict = fmt.Errorf("the parent (MaxRestarts=%d) was restarted %d times before it was terminated", c.Budget, m.restarts["fam/p"])
			return
		}
		if m.stopped["fam/p"] != 1 {
			verdict = fmt.Errorf("%d ActorStoppedEvents for the parent, want 1", m.stopped["fam/p"])
			return
		}
		for i, k := range c.Kids {
			wantR := min(k.Crashes, k.Budget)
			wantX := 0
			if k.Crashes > k.Budget {
				wantX = 1
			}
			id := kidID(i)
			if m.restarts[id] > k.Budget {
				verdict = fmt.Errorf("child %d (MaxRestarts=%d) was restarted %d times", i, k.Budget, m.restarts[id])
				return
			}
			if m.restarts[id] != wantR || m.exceeded[id] != wantX {
				verdict = fmt.Errorf("child %d (MaxRestarts=%d, %d panicking messages queued before its parent died): %d restarts and %d ActorMaxRestartsExceededEvents, want %d and %d",
					i, k.Budget, k.Crashes, m.restarts[id], m.exceeded[id], wantR, wantX)
				return
			}
			if m.stopped[id] != 1 {
				verdict = fmt.Errorf("%d ActorStoppedEvents for child %d, want 1", m.stopped[id], i)
				return
			}
		}
	})
	if verdict != nil {
		return nil, verdict
	}
	hmu.Lock()
	if parStops != c.Budget+1 {
		verdict = fmt.Errorf("the parent (MaxRestarts=%d) handled Stopped %d times, want %d (once per restart and once at the end)", c.Budget, parStops, c.Budget+1)
	}
	for i, k := range c.Kids {
		if verdict != nil {
			break
		}
		if want := min(k.Crashes, k.Budget) + 1; kidStops[i] != want {
			verdict = fmt.Errorf("child %d handled Stopped %d times, want %d", i, kidStops[i], want)
		} else if kidLast[i] > parLast {
			verdict = fmt.Errorf("the parent handled its final Stopped before child %d had handled Stopped", i)
		}
	}
	hmu.Unlock()
	if verdict != nil {
		return nil, verdict
	}
	// ---- everybody else keeps running
	e.Send(by, fPing{})
	select {
	case <-pong:
	case <-time.After(famGrace):
		return nil, fmt.Errorf("a bystander no longer answers after the family died of max-restarts")
	}
	feat["children:"+fmt.Sprint(n)]++
	return feat, nil
}

func genFamily(t *rapid.T) FCase {
	c := FCase{
		Budget:  rapid.IntRange(0, 3).Draw(t, "budget"),
		Hold:    rapid.IntRange(0, 2).Draw(t, "hold"),
		InStart: rapid.IntRange(0, 3).Draw(t, "in_start") == 0,
	}
	n := rapid.IntRange(1, 4).Draw(t, "kids")
	for i := 0; i < n; i++ {
		k := FKid{Budget: rapid.IntRange(0, 2).Draw(t, "kbudget"), Busy: rapid.IntRange(0, 3).Draw(t, "busy") > 0}
		k.Crashes = rapid.IntRange(0, k.Budget+1).Draw(t, "crashes")
		k.Queue = rapid.IntRange(0, 6).Draw(t, "queue")
		c.Kids = append(c.Kids, k)
	}
	return c
}

func TestMaxRestartsFamily(t *testing.T) {
	st := vh.Test("TestMaxRestartsFamily")
	rapid.Check(t, func(t *rapid.T) {
		c := genFamily(t)
		st.Begin(c)
		feat, err := runFamily(c)
		if errors.Is(err, errFamInconclusive) || (err != nil && strings.HasPrefix(err.Error(), "harness: ")) {
			if st.Failed() > 0 {
				return
			}
			t.Fatalf("harness: %v", err)
		}
		if err != nil {
			st.Fail(c, err)
			t.Fatalf("%v", err)
		}
		var labels []string
		for l := range feat {
			labels = append(labels, l)
		}
		// non-trivial: a child is still busy when the parent dies
		st.Done(c, feat["busy-child"] > 0, labels...)
	})
}

func init() {
	vh.RegisterReplay("TestMaxRestartsFamilyEnum", func(raw json.RawMessage) error {
		var c FCase
		if err := json.Unmarshal(raw, &c); err != nil {
			return err
		}
		_, err := runFamily(c)
		return err
	})
	vh.RegisterReplay("TestMaxRestartsFamily", func(raw json.RawMessage) error {
		var c FCase
		if err := json.Unmarshal(raw, &c); err != nil {
			return err
		}
		_, err := runFamily(c)
		return err
	})
}

// Complete enumeration of the small families: parent budget 0..2 (last panic in a message or in
// Started) x one or two children x child budget 0..2 x 0..budget+1 panicking messages x busy or not
// x the three pauses.  The second child, when present, is an idle one with budget 0.
func TestMaxRestartsFamilyEnum(t *testing.T) {
	st := vh.Test("TestMaxRestartsFamilyEnum")
	n := 0
	for budget := 0; budget <= 2; budget++ {
		for _, inStart := range []bool{false, true} {
			if inStart && budget == 0 {
				continue
			}
			for kb := 0; kb <= 2; kb++ {
				for crashes := 0; crashes <= kb+1; crashes++ {
					for _, busy := range []bool{false, true} {
						for hold := 0; hold <= 2; hold++ {
							for _, second := range []bool{false, true} {
								c := FCase{Budget: budget, InStart: inStart, Hold: hold,
									Kids: []FKid{{Budget: kb, Busy: busy, Crashes: crashes, Queue: 2}}}
								if second {
									c.Kids = append(c.Kids, FKid{})
								}
								st.Begin(c)
								feat, err := runFamily(c)
								if errors.Is(err, errFamInconclusive) || (err != nil && strings.HasPrefix(err.Error(), "harness: ")) {
									t.Fatalf("harness: %+v: %v", c, err)
								}
								if err != nil {
									st.Fail(c, err)
									t.Fatalf("%+v: %v", c, err)
								}
								var labels []string
								for l := range feat {
									labels = append(labels, l)
								}
								st.Done(c, feat["busy-child"] > 0, labels...)
								n++
							}
						}
					}
				}
			}
		}
	}
	st.Set("exhaustive", true)
	st.Set("exhaustive_space", fmt.Sprintf("parent MaxRestarts 0..2 x last panic in a message / in Started x child MaxRestarts 0..2 x 0..budget+1 panicking messages x busy or idle x 3 pauses x with / without an idle sibling = %d cases", n))
}
