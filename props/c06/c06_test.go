// C06: restarts are bounded by MaxRestarts; exceeding it stops the actor cleanly.
package c06

import (
	"errors"
	"fmt"
	"testing"

	"pgregory.net/rapid"

	"verif/internal/life"
	"verif/internal/vh"
)

func TestMain(m *testing.M)   { vh.Main(m) }
func TestReplay(t *testing.T) { vh.Replay(t) }

var profile = life.Profile{
	MaxOps: 20, WSend: 6, WPanic: 7, WGate: 3, WRelease: 3, WPoison: 1, WStop: 1, WRespawn: 2, WBurst: 1,
	MaxChain: 1, MaxChildren: 3, Lifecycle: true, SpawnSends: false, MaxBudget: 4,
}

// non-trivial: the budget was actually exhausted.
func nontrivial(f life.Features) bool { return f.MaxDeath }

func TestMaxRestarts(t *testing.T) {
	st := vh.Test("TestMaxRestarts")
	rapid.Check(t, func(t *rapid.T) {
		spec, _ := life.Normalize(life.Gen(t, profile), false)
		life.Property(t, st, spec, false, life.CheckC06, nontrivial)
	})
}

// Fault enumeration: MaxRestarts 0..4 x where the budget-exhausting panic happens
// (un-gated single message; first / middle / last of a queued window; during the replay
// of the restart buffer; in Started / Initialized at spawn or of a restarted incarnation)
// x what is queued behind it (nothing, one, many, a poison pill, a stop pill)
// x with / without children.  Enumerated completely.
func TestMaxRestartsEnum(t *testing.T) {
	st := vh.Test("TestMaxRestartsEnum")
	placements := []string{"ungated", "first", "middle", "last", "replay", "started", "initialized", "started-after-restart"}
	behinds := []string{"none", "one", "many", "poison", "stop"}
	n := 0
	for budget := 0; budget <= 4; budget++ {
		for _, pl := range placements {
			for _, bh := range behinds {
				for _, kids := range []int{0, 2} {
					spec := enumCase(budget, pl, bh, kids)
					spec, _ = life.Normalize(spec, false)
					st.Begin(spec)
					f, div, err := life.RunCase(spec, false, life.CheckC06)
					if errors.Is(err, life.ErrInconclusive) {
						t.Fatalf("harness: budget=%d placement=%s behind=%s children=%d: %v", budget, pl, bh, kids, err)
					}
					if err != nil {
						st.Fail(spec, err)
						t.Fatalf("budget=%d placement=%s behind=%s children=%d: %v", budget, pl, bh, kids, err)
					}
					if div {
						t.Fatalf("harness: diverged without oracle failure: %+v", spec)
					}
					st.Done(spec, f.MaxDeath, append(f.Labels(), "placement:"+pl, "behind:"+bh)...)
					n++
				}
			}
		}
	}
	st.Set("exhaustive", true)
	st.Set("exhaustive_space", fmt.Sprintf("MaxRestarts 0..4 x 8 placements of the budget-exhausting panic x 5 kinds of content queued behind it x {0,2} children = %d cases", n))
}

func enumCase(budget int, placement, behind string, kids int) life.Spec {
	s := life.Spec{MaxRestarts: budget, Children: kids, InboxSize: 2}
	send := func(p bool) life.Op { return life.Op{K: "send", Panic: p, From: 1} }
	tail := func() []life.Op {
		switch behind {
		case "one":
			return []life.Op{send(false)}
		case "many":
			return []life.Op{send(false), {K: "send", N: 30}, send(false)}
		case "poison":
			return []life.Op{send(false), {K: "poison"}, send(false)}
		case "stop":
			return []life.Op{send(false), {K: "stop"}, send(false)}
		}
		return nil
	}
	// burn budget-? restarts so that the placed panic is the one that exhausts it
	burn := func(k int) []life.Op {
		var ops []life.Op
		for i := 0; i < k; i++ {
			ops = append(ops, send(true))
		}
		return ops
	}
	switch placement {
	case "ungated":
		s.Ops = append(burn(budget), send(true))
		s.Ops = append(s.Ops, tail()...)
	case "first":
		s.Ops = append(burn(budget), life.Op{K: "gate"}, send(true))
		s.Ops = append(s.Ops, tail()...)
		s.Ops = append(s.Ops, life.Op{K: "release"})
	case "middle":
		s.Ops = append(burn(budget), life.Op{K: "gate"}, send(false), send(false), send(true))
		s.Ops = append(s.Ops, tail()...)
		s.Ops = append(s.Ops, send(false), life.Op{K: "release"})
	case "last":
		s.Ops = append(burn(budget), life.Op{K: "gate"}, send(false))
		s.Ops = append(s.Ops, tail()...)
		s.Ops = append(s.Ops, send(true), life.Op{K: "release"})
	case "replay":
		// all failures in one queued window: each is hit while the restart buffer is replayed
		s.Ops = []life.Op{{K: "gate"}}
		for i := 0; i <= budget; i++ {
			s.Ops = append(s.Ops, send(true), send(false))
		}
		s.Ops = append(s.Ops, tail()...)
		s.Ops = append(s.Ops, life.Op{K: "release"})
	case "started":
		for i := 1; i <= budget+1; i++ {
			s.StartPanics = append(s.StartPanics, i)
		}
		s.Ops = tail()
	case "initialized":
		for i := 1; i <= budget+1; i++ {
			s.InitPanics = append(s.InitPanics, i)
		}
		s.Ops = tail()
	case "started-after-restart":
		// a message crashes, the replacement incarnations crash in Started until the budget is gone
		for i := 2; i <= budget+1; i++ {
			s.StartPanics = append(s.StartPanics, i)
		}
		s.Ops = append([]life.Op{{K: "gate"}, send(true)}, tail()...)
		s.Ops = append(s.Ops, life.Op{K: "release"})
	}
	// afterwards: sends that must dead-letter, then the id can be used again
	s.Ops = append(s.Ops, send(false), life.Op{K: "respawn"}, send(false))
	return s
}

func init() {
	vh.RegisterReplay("TestMaxRestarts", life.Replayer(false, life.CheckC06))
	vh.RegisterReplay("TestMaxRestartsEnum", life.Replayer(false, life.CheckC06))
}
