// C08 when a parent spawns a child again under an id whose former holder is still going down.
//
// A child that was told to stop is unregistered before it handles Stopped; its id is free from then
// on (C10), and the parent may spawn the child anew.  For a while the parent has an old child on its
// way out and a new child under one id.  "Children() lists exactly the children still alive" and
// "when an actor stops, every actor it spawned as a child has handled Stopped and been unregistered
// before ..." hold for the new child whatever the old one does on its way out.
package tree

import (
	"encoding/json"
	"errors"
	"fmt"
	"sort"
	"strings"
	"sync/atomic"
	"testing"
	"time"

	"github.com/anthdm/hollywood/actor"
	"pgregory.net/rapid"

	"verif/internal/vh"
)

type RKid struct {
	How     string `json:"how"`     // stop | poison: how a third party stops the first holder of the id
	Respawn bool   `json:"respawn"` // the parent spawns the id again while the first holder is inside Stopped
	Late    bool   `json:"late"`    // ... and the first holder leaves its Stopped handler only after that
	// DupFirst: before anything else the parent spawns the id once more while its holder is alive: the
	// spawn is refused, the holder stays what the parent lists - and is what leaves the list when it stops
	DupFirst bool `json:"dup_first,omitempty"`
	// Hold (with Respawn and Late): the first holder stays inside its Stopped handler until AFTER the
	// parent has been told to stop: it is still a child that the parent spawned, and the parent must
	// not handle its own Stopped before it
	Hold bool `json:"hold,omitempty"`
	// NewID: the replacement is spawned under another id (kid/1<i>) instead of the old one: as many
	// children as before, not the same children
	NewID bool `json:"new_id,omitempty"`
}

type RCase struct {
	Kids  []RKid `json:"kids"`
	Final string `json:"final"` // stop | poison | crash: how the parent ends
}

func runRespawn(c RCase) (map[string]int, error) {
	n := len(c.Kids)
	if n < 1 || n > 3 {
		return nil, nil
	}
	feat := map[string]int{}
	e, err := actor.NewEngine(actor.NewEngineConfig())
	if err != nil {
		return nil, fmt.Errorf("harness: %v", err)
	}
	type holder struct {
		in, rel chan struct{}
		gated   bool
		stopped atomic.Bool
		pid     *actor.PID
	}
	mk := func(gated bool) *holder {
		return &holder{in: make(chan struct{}), rel: make(chan struct{}), gated: gated}
	}
	recvOf := func(h *holder) func(*actor.Context) {
		return func(ctx *actor.Context) {
			if _, ok := ctx.Message().(actor.Stopped); ok {
				if h.gated {
					close(h.in)
					<-h.rel
				}
				h.stopped.Store(true)
			}
		}
	}
	var parentStopped atomic.Bool
	var alive []*holder // what must be alive (and be stopped with the parent) in the end
	spawnKid := func(i int, h *holder) func(*actor.Context) {
		return func(pc *actor.Context) { h.pid = pc.SpawnChildFunc(recvOf(h), "kid", actor.WithID(fmt.Sprint(i))) }
	}
	// every step looks at Children() first, as an actor that fans out to its children would
	listKids := func(pc *actor.Context) { _ = pc.Children() }
	var stoppedBeforeParent string
	var heldFirst []*holder
	opts := []actor.OptFunc{actor.WithID("0"), actor.WithRestartDelay(0)}
	if c.Final == "crash" {
		opts = append(opts, actor.WithMaxRestarts(0))
	}
	parent := e.SpawnFunc(func(ctx *actor.Context) {
		switch m := ctx.Message().(type) {
		case func(*actor.Context):
			m(ctx)
		case string:
			panic("generated crash")
		case actor.Stopped:
			for _, h := range alive {
				if !h.stopped.Load() && stoppedBeforeParent == "" {
					stoppedBeforeParent = h.pid.ID
				}
			}
			for _, h := range heldFirst {
				if !h.stopped.Load() && stoppedBeforeParent == "" {
					stoppedBeforeParent = h.pid.ID + " (the former holder of the id, still inside its Stopped handler)"
				}
			}
			parentStopped.Store(true)
		}
	}, "par", opts...)
	ask := func(f func(*actor.Context)) error {
		done := make(chan struct{})
		e.Send(parent, func(pc *actor.Context) { f(pc); close(done) })
		return waitCh(done, "the parent did not answer")
	}
	first := make([]*holder, n)
	for i := range c.Kids {
		first[i] = mk(true)
		if err := ask(spawnKid(i, first[i])); err != nil {
			return nil, err
		}
	}
	children := func() ([]string, error) {
		var l []string
		err := ask(func(pc *actor.Context) {
			for _, p := range pc.Children() {
				if p != nil {
					l = append(l, p.ID)
				}
			}
		})
		sort.Strings(l)
		return l, err
	}
	type heldKid struct {
		h    *holder
		done <-chan struct{}
		i    int
	}
	var held []heldKid
	for i, k := range c.Kids {
		if k.NewID {
			k.Hold = false // (a held former child under another id is still listed, rightly: it has not finished)
		}
		if k.DupFirst {
			ran := false
			if err := ask(func(pc *actor.Context) {
				pc.SpawnChild(func() actor.Receiver { ran = true; return recvFnT(func(*actor.Context) {}) }, "kid", actor.WithID(fmt.Sprint(i)))
			}); err != nil {
				return nil, err
			}
			if ran {
				return nil, fmt.Errorf("child %d: a SpawnChild under the id of a live child ran the Producer", i)
			}
			feat["refused-duplicate-over-a-live-child"]++
		}
		var done <-chan struct{}
		if k.How == "stop" {
			done = e.Stop(first[i].pid).Done()
		} else {
			done = e.Poison(first[i].pid).Done()
		}
		if err := waitCh(first[i].in, "child never reached its Stopped handler"); err != nil {
			return nil, err
		}
		cur := (*holder)(nil)
		respawn := func() error {
			h := mk(false)
			id := i
			if k.NewID {
				id = 10 + i
				feat["replacement-under-another-id"]++
			}
			if err := ask(listKids); err != nil {
				return err
			}
			if err := ask(spawnKid(id, h)); err != nil {
				return err
			}
			if p := e.Registry.GetPID("par/0/kid", fmt.Sprint(id)); p == nil {
				return fmt.Errorf("child %d: its id was free (the first holder is unregistered and inside Stopped), yet SpawnChild under it registered nothing", i)
			}
			cur = h
			feat["child-respawned-while-its-predecessor-handles-Stopped"]++
			return nil
		}
		if k.Respawn && k.Late {
			if err := respawn(); err != nil {
				return nil, err
			}
		}
		if k.Respawn && k.Late && k.Hold {
			held = append(held, heldKid{first[i], done, i})
			alive = append(alive, cur)
			feat["former-child-still-in-Stopped-when-the-parent-ends"]++
			continue
		}
		close(first[i].rel)
		if err := waitCh(done, "stop of the first holder not done"); err != nil {
			return nil, err
		}
		if k.Respawn && !k.Late {
			if err := respawn(); err != nil {
				return nil, err
			}
		}
		if cur != nil {
			alive = append(alive, cur)
		}
		// the first holder is gone for good (its stop context is done): Children() = the live ones
		var want []string
		for _, h := range alive {
			want = append(want, h.pid.ID)
		}
		for j := i + 1; j < n; j++ {
			want = append(want, first[j].pid.ID)
		}
		sort.Strings(want)
		got, err := children()
		if err != nil {
			return nil, err
		}
		if strings.Join(got, ",") != strings.Join(want, ",") {
			return nil, fmt.Errorf("after the first holder of kid/%d had stopped (respawned=%v, before it left Stopped=%v): the parent's Children() = %v, its live children are %v", i, k.Respawn, k.Late, got, want)
		}
	}
	for _, hk := range held {
		heldFirst = append(heldFirst, hk.h)
	}
	if len(held) > 0 {
		// the gates of the held former children open a moment after the parent was told to stop: a
		// parent that does not wait for them has handled Stopped by then (seen in its handler, no
		// clock in the verdict); one that waits is released by the opening
		go func() {
			time.Sleep(30 * time.Millisecond)
			for _, hk := range held {
				close(hk.h.rel)
			}
		}()
	}
	// ---- the parent ends: every live child has handled Stopped and is unregistered before the parent's own Stopped
	var done <-chan struct{}
	switch c.Final {
	case "stop":
		done = e.Stop(parent).Done()
	case "poison":
		done = e.Poison(parent).Done()
	case "crash":
		mon := make(chan struct{})
		m := e.SpawnFunc(func(ctx *actor.Context) {
			if ev, ok := ctx.Message().(actor.ActorStoppedEvent); ok && ev.PID.ID == "par/0" {
				close(mon)
			}
		}, "respawnmon")
		e.Subscribe(m)
		defer func() { e.Unsubscribe(m); e.Poison(m) }()
		e.Send(parent, "crash")
		done = mon
	default:
		return nil, nil
	}
	if err := waitCh(done, "end of the parent not signalled"); err != nil {
		return nil, err
	}
	if stoppedBeforeParent != "" {
		return nil, fmt.Errorf("the parent handled Stopped (%s) while its live child %s had not", c.Final, stoppedBeforeParent)
	}
	for _, h := range alive {
		if !h.stopped.Load() {
			return nil, fmt.Errorf("the parent has ended (%s) and its child %s, spawned under an id whose first holder was still stopping, never handled Stopped", c.Final, h.pid.ID)
		}
		j := strings.LastIndex(h.pid.ID, "/")
		if p := e.Registry.GetPID(h.pid.ID[:j], h.pid.ID[j+1:]); p != nil {
			return nil, fmt.Errorf("the parent has ended (%s) and its child %s is still registered", c.Final, h.pid.ID)
		}
	}
	return feat, nil
}

type recvFnT func(*actor.Context)

func (r recvFnT) Receive(c *actor.Context) { r(c) }

func TestRespawnChild(t *testing.T) {
	st := vh.Test("TestRespawnChild")
	rapid.Check(t, func(t *rapid.T) {
		c := RCase{Final: rapid.SampledFrom([]string{"stop", "poison", "poison", "crash"}).Draw(t, "final")}
		n := rapid.IntRange(1, 3).Draw(t, "kids")
		for i := 0; i < n; i++ {
			c.Kids = append(c.Kids, RKid{
				How:      rapid.SampledFrom([]string{"stop", "poison"}).Draw(t, "how"),
				Respawn:  rapid.IntRange(0, 3).Draw(t, "respawn") > 0,
				Late:     rapid.Bool().Draw(t, "late"),
				Hold:     rapid.IntRange(0, 2).Draw(t, "hold") == 0,
				NewID:    rapid.IntRange(0, 2).Draw(t, "new_id") == 0,
				DupFirst: rapid.IntRange(0, 2).Draw(t, "dup_first") == 0,
			})
		}
		st.Begin(c)
		feat, err := runRespawn(c)
		if errors.Is(err, errInconclusive) || (err != nil && strings.HasPrefix(err.Error(), "harness: ")) {
			if st.Failed() > 0 {
				return
			}
			t.Fatalf("harness: %v", err)
		}
		if err != nil {
			st.Fail(c, err)
			t.Fatalf("%v", err)
		}
		var labels []string
		for l := range feat {
			labels = append(labels, l)
		}
		late := false
		for _, k := range c.Kids {
			late = late || (k.Respawn && k.Late)
		}
		st.Done(c, late, labels...)
	})
}

func init() {
	vh.RegisterReplay("TestRespawnChild", func(raw json.RawMessage) error {
		var c RCase
		if err := json.Unmarshal(raw, &c); err != nil {
			return err
		}
		_, err := runRespawn(c)
		return err
	})
}
