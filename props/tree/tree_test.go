// C08: supervision tree: a stopping parent takes all descendants down first.
package tree

import (
	"context"
	"encoding/json"
	"errors"
	"fmt"
	"runtime"
	"sort"
	"strings"
	"sync"
	"sync/atomic"
	"testing"
	"time"

	"github.com/anthdm/hollywood/actor"
	"pgregory.net/rapid"

	"verif/internal/vh"
)

func TestMain(m *testing.M)   { vh.Main(m) }
func TestReplay(t *testing.T) { vh.Replay(t) }

var errInconclusive = errors.New("harness: bounded wait expired")

const wait = 30 * time.Second

type Node struct {
	Parent int  `json:"parent"` // index of the parent, < own index; node 0 is the root (parent -1)
	Busy   bool `json:"busy,omitempty"`
	Queue  int  `json:"queue,omitempty"` // messages queued behind the gate of a busy node
	// Stillborn: a leaf spawned with MaxRestarts 0 that panics in its Started handler, so it is
	// already gone when SpawnChild returns
	Stillborn bool `json:"stillborn,omitempty"`
	// CrashOnce: after the tree is built the node panics on one message and is restarted (default restart
	// budget, no delay).  It is still the same child of the same parent: Parent() and Children() as before.
	CrashOnce bool `json:"crash_once,omitempty"`
	// DupSpawn: after the tree is built the parent spawns a child under this node's kind and id a
	// second time.  Nothing may change: the producer must not run, the live child stays listed.
	DupSpawn bool `json:"dup_spawn,omitempty"`
	// SlowStop: the Stopped handler yields this many times before it returns (widens the window in
	// which the node is unregistered but has not finished handling Stopped)
	SlowStop int `json:"slow_stop,omitempty"`
	// CtxCancelled: the node is spawned WithContext(ctx) and ctx is cancelled already.  The spawn
	// context is user data; it must not influence how the tree is taken down.
	CtxCancelled bool `json:"ctx_cancelled,omitempty"`
}

type PreStop struct {
	Node int    `json:"node"`
	How  string `json:"how"` // stop | poison: by a third party, awaited, before the final shutdown
}

// ConcStop is a Stop/Poison by a third party that is NOT awaited before the final shutdown: it
// is issued just before ("before"), just after ("after") or from another goroutine released
// together with ("race") the shutdown call, for a node inside the subtree that is shut down
// (the target itself included: a second stop request for the same actor).
type ConcStop struct {
	Node int    `json:"node"`
	How  string `json:"how"`  // stop | poison | crash (the node has MaxRestarts 0 and is sent a message it panics on)
	When string `json:"when"` // before | after | race
}

type TCase struct {
	Nodes  []Node     `json:"nodes"`
	Pre    []PreStop  `json:"pre"`
	Conc   []ConcStop `json:"conc,omitempty"`
	Target int        `json:"target"`
	How    string     `json:"how"` // stop | poison | crash (a panic with MaxRestarts 0)
}

type gateMsg struct{ ch chan struct{} }
type userMsg struct{ N int }
type crashMsg struct{}

type nodeState struct {
	idx        int
	pid        *actor.PID
	parentPID  *actor.PID // what Context.Parent() said
	parentSet  bool
	stamp      int64 // global sequence number of Stopped, 0 = not stopped
	stops      int
	regLeft    []string // descendants still registered when this node handled Stopped
	stoppedCh  chan struct{}
	handled    int
	spawned    bool
	crashStops int // Stopped deliveries that belong to a restart, announced by the harness
}

type harness struct {
	c     TCase
	e     *actor.Engine
	seq   atomic.Int64
	mu    sync.Mutex
	nodes []*nodeState
	kids  [][]int
	// mortal: nodes spawned with MaxRestarts 0 because a concurrent "crash" is planned for them
	mortal map[int]bool
}

func (h *harness) descendants(i int) []int {
	var out []int
	for _, k := range h.kids[i] {
		out = append(out, k)
		out = append(out, h.descendants(k)...)
	}
	return out
}

type recv func(*actor.Context)

func (r recv) Receive(c *actor.Context) { r(c) }

func (h *harness) receive(i int, c *actor.Context) {
	n := h.nodes[i]
	switch m := c.Message().(type) {
	case actor.Stopped:
		h.mu.Lock()
		if n.crashStops > 0 {
			// the Stopped that a crashed incarnation is told before it is replaced: not the end of the node
			n.crashStops--
			h.mu.Unlock()
			return
		}
		h.mu.Unlock()
		var left []string
		for _, d := range h.descendants(i) {
			if p := c.GetPID(h.idOf(d)); p != nil {
				left = append(left, h.idOf(d))
			}
		}
		for k := 0; k < h.c.Nodes[i].SlowStop; k++ {
			runtime.Gosched()
		}
		h.mu.Lock()
		n.stamp = h.seq.Add(1)
		n.stops++
		n.regLeft = left
		if n.stops == 1 {
			close(n.stoppedCh)
		}
		h.mu.Unlock()
	case gateMsg:
		<-m.ch
	case userMsg:
		h.mu.Lock()
		n.handled++
		h.mu.Unlock()
	case crashMsg:
		panic("generated crash")
	case func(*actor.Context):
		m(c)
	}
}

func (h *harness) idOf(i int) string {
	if i == 0 {
		return "n/0"
	}
	return h.idOf(h.c.Nodes[i].Parent) + "/n/" + fmt.Sprint(i)
}

func waitCh(ch <-chan struct{}, what string) error {
	select {
	case <-ch:
		return nil
	case <-time.After(wait):
		return fmt.Errorf("%w: %s", errInconclusive, what)
	}
}

// children asks node i, from inside its Receive, for Context.Children().
func (h *harness) children(i int) ([]string, error) {
	res := make(chan []string, 1)
	h.e.Send(h.nodes[i].pid, func(c *actor.Context) {
		var ids []string
		for _, p := range c.Children() {
			if p == nil {
				ids = append(ids, "<nil>")
			} else {
				ids = append(ids, p.ID)
			}
		}
		sort.Strings(ids)
		res <- ids
	})
	select {
	case r := <-res:
		return r, nil
	case <-time.After(wait):
		return nil, fmt.Errorf("%w: node %d did not answer Children()", errInconclusive, i)
	}
}

// checkStopped: the whole subtree of root has stopped bottom-up and is unregistered.
func (h *harness) checkStopped(root int, what string) error {
	h.mu.Lock()
	defer h.mu.Unlock()
	sub := append([]int{root}, h.descendants(root)...)
	for _, i := range sub {
		n := h.nodes[i]
		if n.stops != 1 {
			return fmt.Errorf("%s: node %s has handled Stopped %d times when the shutdown of %s was complete", what, h.idOf(i), n.stops, h.idOf(root))
		}
		parts := h.idOf(i)
		j := strings.LastIndex(parts, "/")
		if p := h.e.Registry.GetPID(parts[:j], parts[j+1:]); p != nil {
			return fmt.Errorf("%s: node %s is still registered after the shutdown of %s was complete", what, h.idOf(i), h.idOf(root))
		}
		if len(n.regLeft) > 0 {
			return fmt.Errorf("%s: when %s handled Stopped its descendants %v were still registered", what, h.idOf(i), n.regLeft)
		}
		for _, d := range h.descendants(i) {
			if ds := h.nodes[d].stamp; ds == 0 || ds > n.stamp {
				return fmt.Errorf("%s: %s handled Stopped (#%d) before its descendant %s (#%d)", what, h.idOf(i), n.stamp, h.idOf(d), ds)
			}
		}
	}
	return nil
}

func run(c TCase) (map[string]int, error) {
	n := len(c.Nodes)
	if n < 1 || n > 12 || c.Target < 0 || c.Target >= n {
		return nil, nil
	}
	feat := map[string]int{}
	e, err := actor.NewEngine(actor.NewEngineConfig())
	if err != nil {
		return nil, fmt.Errorf("harness: %v", err)
	}
	h := &harness{c: c, e: e, kids: make([][]int, n)}
	depth := make([]int, n)
	maxDepth := 0
	for i, nd := range c.Nodes {
		if (i == 0) != (nd.Parent == -1) || nd.Parent >= i || nd.Parent < -1 {
			return nil, nil
		}
		h.nodes = append(h.nodes, &nodeState{idx: i, stoppedCh: make(chan struct{})})
		if nd.Stillborn && i == 0 {
			return nil, nil
		}
		if i > 0 {
			if c.Nodes[nd.Parent].Stillborn {
				return nil, nil // stillborn nodes are leaves
			}
			h.kids[nd.Parent] = append(h.kids[nd.Parent], i)
			depth[i] = depth[nd.Parent] + 1
			maxDepth = max(maxDepth, depth[i])
		}
	}
	opts := []actor.OptFunc{actor.WithID("0"), actor.WithRestartDelay(0)}
	if c.Nodes[0].CtxCancelled {
		opts = append(opts, actor.WithContext(cancelledCtx()))
		feat["spawned-with-a-cancelled-context"]++
	}
	rootMortal := c.Target == 0 && c.How == "crash"
	for _, cs := range c.Conc {
		rootMortal = rootMortal || (cs.How == "crash" && cs.Node == 0)
	}
	if rootMortal {
		opts = append(opts, actor.WithMaxRestarts(0))
	}
	// only the nodes that are crashed to death have MaxRestarts 0: SpawnChild options are per node
	crashNode := -1
	if c.How == "crash" {
		crashNode = c.Target
	}
	h.mortal = map[int]bool{}
	for _, cs := range c.Conc {
		if cs.How == "crash" && cs.Node >= 0 && cs.Node < len(c.Nodes) {
			h.mortal[cs.Node] = true
		}
	}
	e.Spawn(func() actor.Receiver {
		return recv(func(ctx *actor.Context) {
			h.receiveWith(0, ctx, crashNode)
		})
	}, "n", opts...)
	alive := map[int]bool{}
	for i := range c.Nodes {
		alive[i] = !c.Nodes[i].Stillborn
		if c.Nodes[i].Stillborn {
			feat["child-died-in-its-own-Started"]++
		}
	}
	if !alive[c.Target] {
		return nil, nil
	}
	// ---- after the build: Parent() and Children()
	h.mu.Lock()
	for i, nd := range h.nodes {
		if !nd.parentSet {
			h.mu.Unlock()
			return nil, fmt.Errorf("node %s had not handled Started when Spawn of the root returned", h.idOf(i))
		}
		if i == 0 {
			if nd.parentPID != nil {
				h.mu.Unlock()
				return nil, fmt.Errorf("the root's Parent() is %v, want nil", nd.parentPID)
			}
			continue
		}
		want := h.nodes[c.Nodes[i].Parent].pid
		if nd.parentPID == nil || !nd.parentPID.Equals(want) {
			h.mu.Unlock()
			return nil, fmt.Errorf("Parent() of %s is %v, want the spawning actor %v", h.idOf(i), nd.parentPID, want)
		}
	}
	h.mu.Unlock()
	checkChildren := func(what string) error {
		for i := range c.Nodes {
			if !alive[i] {
				continue
			}
			got, err := h.children(i)
			if err != nil {
				return err
			}
			want := []string{}
			for _, k := range h.kids[i] {
				if alive[k] {
					want = append(want, h.idOf(k))
				}
			}
			sort.Strings(want)
			if strings.Join(got, ",") != strings.Join(want, ",") {
				return fmt.Errorf("%s: Children() of %s = %v, want exactly the live children %v", what, h.idOf(i), got, want)
			}
		}
		return nil
	}
	if err := checkChildren("after the tree was built"); err != nil {
		return nil, err
	}
	// ---- nodes that crash once and are restarted keep their place in the tree
	checkParents := func(what string) error {
		h.mu.Lock()
		defer h.mu.Unlock()
		for i, nd := range h.nodes {
			if i == 0 || !alive[i] {
				continue
			}
			want := h.nodes[c.Nodes[i].Parent].pid
			if nd.parentPID == nil || !nd.parentPID.Equals(want) {
				return fmt.Errorf("%s: Parent() of %s is %v, want the spawning actor %v", what, h.idOf(i), nd.parentPID, want)
			}
		}
		return nil
	}
	for i, nd := range c.Nodes {
		if !nd.CrashOnce || !alive[i] || i == crashNode || nd.Stillborn || h.mortal[i] {
			continue
		}
		h.mu.Lock()
		h.nodes[i].crashStops++
		h.mu.Unlock()
		e.Send(h.nodes[i].pid, crashMsg{})
		// the query is handled by the fresh incarnation, after its Started
		if _, err := h.children(i); err != nil {
			return nil, err
		}
		feat["node-restarted-after-a-crash"]++
		if err := checkParents(fmt.Sprintf("after %s crashed and was restarted", h.idOf(i))); err != nil {
			return nil, err
		}
		if err := checkChildren(fmt.Sprintf("after %s crashed and was restarted", h.idOf(i))); err != nil {
			return nil, err
		}
	}
	// ---- duplicate SpawnChild over live children: changes nothing
	for i, nd := range c.Nodes {
		if !nd.DupSpawn || i == 0 || !alive[i] || !alive[nd.Parent] {
			continue
		}
		ran := make(chan struct{}, 1)
		done := make(chan *actor.PID, 1)
		k := i
		e.Send(h.nodes[nd.Parent].pid, func(pc *actor.Context) {
			done <- pc.SpawnChild(func() actor.Receiver {
				ran <- struct{}{}
				return recv(func(*actor.Context) {})
			}, "n", actor.WithID(fmt.Sprint(k)))
		})
		select {
		case <-done:
		case <-time.After(wait):
			return nil, fmt.Errorf("%w: parent of node %d did not answer the duplicate SpawnChild", errInconclusive, i)
		}
		select {
		case <-ran:
			return nil, fmt.Errorf("a second SpawnChild under the id of the live child %s ran its Producer", h.idOf(i))
		default:
		}
		feat["duplicate-SpawnChild-over-a-live-child"]++
		if err := checkChildren(fmt.Sprintf("after a duplicate SpawnChild under the id of %s", h.idOf(i))); err != nil {
			return nil, err
		}
	}
	// ---- third parties stop some subtrees first, awaited
	for pi, p := range c.Pre {
		if p.Node <= 0 || p.Node >= n {
			return nil, nil
		}
		if !alive[p.Node] || p.Node == c.Target {
			continue
		}
		// the target must survive until the final shutdown
		isAnc := false
		for a := c.Target; a >= 0; a = c.Nodes[a].Parent {
			if a == p.Node {
				isAnc = true
			}
			if a == 0 {
				break
			}
		}
		if isAnc {
			continue
		}
		var done <-chan struct{}
		if p.How == "stop" {
			done = e.Stop(h.nodes[p.Node].pid).Done()
		} else {
			done = e.Poison(h.nodes[p.Node].pid).Done()
		}
		if err := waitCh(done, fmt.Sprintf("pre-stop %d of %s not done", pi, h.idOf(p.Node))); err != nil {
			return nil, err
		}
		if err := h.checkStopped(p.Node, fmt.Sprintf("third-party %s of %s", p.How, h.idOf(p.Node))); err != nil {
			return nil, err
		}
		alive[p.Node] = false
		for _, d := range h.descendants(p.Node) {
			alive[d] = false
		}
		feat["child-stopped-on-its-own-first"]++
		if err := checkChildren(fmt.Sprintf("after %s was stopped by a third party", h.idOf(p.Node))); err != nil {
			return nil, err
		}
	}
	// ---- busy nodes block in Receive with a backlog
	var gates []chan struct{}
	sub := map[int]bool{c.Target: true}
	for _, d := range h.descendants(c.Target) {
		sub[d] = true
	}
	for i, nd := range c.Nodes {
		if !alive[i] || !nd.Busy || !sub[i] {
			continue
		}
		g := make(chan struct{})
		gates = append(gates, g)
		e.Send(h.nodes[i].pid, gateMsg{g})
		for q := 0; q < nd.Queue; q++ {
			e.Send(h.nodes[i].pid, userMsg{q})
		}
		if i != c.Target {
			feat["busy-descendant"]++
		}
	}
	crashedEv := make(chan struct{})
	if c.How == "crash" {
		want := h.idOf(c.Target)
		var once sync.Once
		mon := e.SpawnFunc(func(ctx *actor.Context) {
			if ev, ok := ctx.Message().(actor.ActorStoppedEvent); ok && ev.PID.ID == want {
				once.Do(func() { close(crashedEv) })
			}
		}, "treemon")
		// the Subscribe reaches the event stream's inbox before the crash message is even sent, hence
		// before the ActorStoppedEvent that the crash leads to
		e.Subscribe(mon)
		defer func() { e.Unsubscribe(mon); e.Poison(mon) }()
	}
	// ---- third-party stops that overlap the shutdown
	type concRun struct {
		cs   ConcStop
		ctx  chan struct{} // closed when the context is done
		bad  atomic.Value  // string: what was wrong at the moment the context was done
		sent chan struct{}
	}
	var concs []*concRun
	issue := func(cr *concRun) {
		var d <-chan struct{}
		if cr.cs.How == "crash" {
			// death by max-restarts while an ancestor is being shut down: no context to watch; the
			// verdict is the one on the shutdown itself (nobody in the subtree is left behind)
			e.Send(h.nodes[cr.cs.Node].pid, crashMsg{})
			close(cr.sent)
			close(cr.ctx)
			return
		}
		if cr.cs.How == "stop" {
			d = e.Stop(h.nodes[cr.cs.Node].pid).Done()
		} else {
			d = e.Poison(h.nodes[cr.cs.Node].pid).Done()
		}
		close(cr.sent)
		go func() {
			<-d
			id := h.idOf(cr.cs.Node)
			j := strings.LastIndex(id, "/")
			h.mu.Lock()
			stamp := h.nodes[cr.cs.Node].stamp
			h.mu.Unlock()
			if stamp == 0 {
				cr.bad.Store(fmt.Sprintf("the context of a third-party %s of %s became done before that actor had handled Stopped", cr.cs.How, id))
			} else if e.Registry.GetPID(id[:j], id[j+1:]) != nil {
				cr.bad.Store(fmt.Sprintf("the context of a third-party %s of %s became done while that actor was still registered", cr.cs.How, id))
			}
			close(cr.ctx)
		}()
	}
	for _, cs := range c.Conc {
		if cs.Node < 0 || cs.Node >= n || !sub[cs.Node] || !alive[cs.Node] {
			continue
		}
		if c.How == "crash" && cs.Node == c.Target && cs.When != "after" {
			// a stop that wins against the crash message would make the death a plain stop; keep
			// the "crash" cases what their label says
			continue
		}
		concs = append(concs, &concRun{cs: cs, ctx: make(chan struct{}), sent: make(chan struct{})})
	}
	if len(concs) > 0 {
		feat["third-party-stop-overlapping-the-shutdown"]++
	}
	for _, cr := range concs {
		if cr.cs.When == "before" {
			issue(cr)
		}
		if cr.cs.Node == c.Target {
			feat["second-stop-request-for-the-target"]++
		}
		if cr.cs.How == "crash" && cr.cs.Node != c.Target {
			feat["descendant-dies-of-max-restarts-during-the-shutdown"]++
		}
	}
	start := make(chan struct{})
	for _, cr := range concs {
		if cr.cs.When == "race" {
			cr := cr
			go func() { <-start; issue(cr) }()
		}
	}
	// ---- the shutdown
	var done <-chan struct{}
	tp := h.nodes[c.Target].pid
	close(start)
	switch c.How {
	case "stop":
		done = e.Stop(tp).Done()
	case "poison":
		done = e.Poison(tp).Done()
	case "crash":
		e.Send(tp, crashMsg{})
		// there is no stop context here; ActorStoppedEvent is published at the very end of the clean-up
		// (the Stopped handler itself runs before the actor leaves its parent's children)
		done = crashedEv
		feat["death-by-max-restarts"]++
	default:
		return nil, nil
	}
	for _, cr := range concs {
		if cr.cs.When == "after" {
			issue(cr)
		}
	}
	for _, cr := range concs {
		if err := waitCh(cr.sent, "third-party stop call did not return"); err != nil {
			return nil, err
		}
	}
	for _, g := range gates {
		close(g)
	}
	if err := waitCh(done, fmt.Sprintf("%s of %s not done", c.How, h.idOf(c.Target))); err != nil {
		return nil, err
	}
	if err := h.checkStopped(c.Target, fmt.Sprintf("%s of %s", c.How, h.idOf(c.Target))); err != nil {
		return nil, err
	}
	// every overlapping request is signalled too: the whole subtree is stopped and unregistered
	// by now, so nothing but goroutine scheduling can delay these contexts (DESIGN 1.3 rule 2)
	for _, cr := range concs {
		select {
		case <-cr.ctx:
		case <-time.After(5 * time.Second):
			return nil, fmt.Errorf("the context of the third-party %s (%s the shutdown) of %s never became done although that actor has handled Stopped and is unregistered",
				cr.cs.How, cr.cs.When, h.idOf(cr.cs.Node))
		}
		if b, _ := cr.bad.Load().(string); b != "" {
			return nil, errors.New(b)
		}
	}
	alive[c.Target] = false
	for d := range sub {
		alive[d] = false
	}
	// everybody else is untouched
	h.mu.Lock()
	for i := range c.Nodes {
		if alive[i] && h.nodes[i].stops != 0 {
			h.mu.Unlock()
			return nil, fmt.Errorf("node %s, outside the subtree of %s, was stopped", h.idOf(i), h.idOf(c.Target))
		}
	}
	h.mu.Unlock()
	if err := checkChildren(fmt.Sprintf("after the %s of %s", c.How, h.idOf(c.Target))); err != nil {
		return nil, err
	}
	subDepth := 0
	for d := range sub {
		subDepth = max(subDepth, depth[d]-depth[c.Target])
	}
	if subDepth >= 2 {
		feat["subtree-depth>=2"]++
	}
	if subDepth >= 1 {
		feat["has-children"]++
	}
	_ = maxDepth
	return feat, nil
}

// receiveWith is receive plus per-node spawn options for the children.
func (h *harness) receiveWith(i int, c *actor.Context, crashNode int) {
	if _, ok := c.Message().(actor.Started); ok {
		n := h.nodes[i]
		h.mu.Lock()
		first := !n.spawned
		n.spawned = true
		n.pid = c.PID()
		n.parentPID, n.parentSet = c.Parent(), true
		h.mu.Unlock()
		if h.c.Nodes[i].Stillborn {
			panic("generated crash in Started")
		}
		if first {
			for _, k := range h.kids[i] {
				k := k
				opts := []actor.OptFunc{actor.WithID(fmt.Sprint(k)), actor.WithRestartDelay(0)}
				if k == crashNode || h.c.Nodes[k].Stillborn || h.mortal[k] {
					opts = append(opts, actor.WithMaxRestarts(0))
				}
				if h.c.Nodes[k].CtxCancelled {
					opts = append(opts, actor.WithContext(cancelledCtx()))
				}
				c.SpawnChild(func() actor.Receiver {
					return recv(func(ctx *actor.Context) { h.receiveWith(k, ctx, crashNode) })
				}, "n", opts...)
			}
		}
		return
	}
	h.receive(i, c)
}

func cancelledCtx() context.Context {
	ctx, cancel := context.WithCancel(context.Background())
	cancel()
	return ctx
}

func gen(t *rapid.T) TCase {
	c := TCase{}
	n := rapid.IntRange(1, 10).Draw(t, "nodes")
	depth := []int{0}
	fan := []int{0}
	c.Nodes = append(c.Nodes, Node{Parent: -1})
	for i := 1; i < n; i++ {
		// parents with depth < 3 and fan-out < 3
		var cand []int
		for p := 0; p < i; p++ {
			if depth[p] < 3 && fan[p] < 3 {
				cand = append(cand, p)
			}
		}
		p := rapid.SampledFrom(cand).Draw(t, "parent")
		c.Nodes = append(c.Nodes, Node{Parent: p})
		depth = append(depth, depth[p]+1)
		fan = append(fan, 0)
		fan[p]++
	}
	for i := range c.Nodes {
		if i > 0 && fan[i] == 0 && rapid.IntRange(0, 5).Draw(t, "stillborn") == 0 {
			c.Nodes[i].Stillborn = true
			continue
		}
		c.Nodes[i].CtxCancelled = rapid.IntRange(0, 3).Draw(t, "ctx") == 0
		c.Nodes[i].DupSpawn = i > 0 && rapid.IntRange(0, 5).Draw(t, "dup") == 0
		c.Nodes[i].CrashOnce = rapid.IntRange(0, 4).Draw(t, "crashonce") == 0
		c.Nodes[i].SlowStop = rapid.SampledFrom([]int{0, 0, 0, 1, 10, 200}).Draw(t, "slow")
		if rapid.IntRange(0, 2).Draw(t, "busy") == 0 {
			c.Nodes[i].Busy = true
			c.Nodes[i].Queue = rapid.IntRange(0, 5).Draw(t, "queue")
		}
	}
	np := rapid.IntRange(0, 2).Draw(t, "npre")
	for i := 0; i < np && n > 1; i++ {
		c.Pre = append(c.Pre, PreStop{Node: rapid.IntRange(1, n-1).Draw(t, "pre"), How: rapid.SampledFrom([]string{"stop", "poison"}).Draw(t, "prehow")})
	}
	// shutting down nodes near the root is the interesting case
	if rapid.Bool().Draw(t, "root") {
		c.Target = 0
	} else {
		c.Target = rapid.IntRange(0, n-1).Draw(t, "target")
		if c.Nodes[c.Target].Stillborn {
			c.Target = c.Nodes[c.Target].Parent
		}
	}
	c.How = rapid.SampledFrom([]string{"stop", "poison", "poison", "crash"}).Draw(t, "how")
	// overlapping third-party stops inside the subtree that is shut down
	if rapid.IntRange(0, 2).Draw(t, "has_conc") > 0 {
		var subtree []int
		in := map[int]bool{c.Target: true}
		for i := range c.Nodes {
			if i > c.Target && in[c.Nodes[i].Parent] {
				in[i] = true
			}
			if in[i] && !c.Nodes[i].Stillborn {
				subtree = append(subtree, i)
			}
		}
		nc := rapid.IntRange(1, 3).Draw(t, "nconc")
		for i := 0; i < nc && len(subtree) > 0; i++ {
			c.Conc = append(c.Conc, ConcStop{
				Node: rapid.SampledFrom(subtree).Draw(t, "conc"),
				How:  rapid.SampledFrom([]string{"stop", "poison", "poison", "crash"}).Draw(t, "conchow"),
				When: rapid.SampledFrom([]string{"before", "after", "race", "race"}).Draw(t, "concwhen"),
			})
		}
	}
	return c
}

func TestTree(t *testing.T) {
	st := vh.Test("TestTree")
	f7 := vh.Open("F7", "C08")
	rapid.Check(t, func(t *rapid.T) {
		c := gen(t)
		if f7 && len(c.Conc) > 0 {
			c.Conc = nil
			st.Exclude("F7: third-party stop overlapping the shutdown of an ancestor")
		}
		st.Begin(c)
		feat, err := run(c)
		if errors.Is(err, errInconclusive) || (err != nil && strings.HasPrefix(err.Error(), "harness: ")) {
			if st.Failed() > 0 {
				return
			}
			t.Fatalf("harness: %v", err)
		}
		if err != nil {
			st.Fail(c, err)
			t.Fatalf("%v", err)
		}
		var labels []string
		for k := range feat {
			labels = append(labels, k)
		}
		nt := feat["subtree-depth>=2"] > 0 && (feat["busy-descendant"] > 0 || feat["child-stopped-on-its-own-first"] > 0 || feat["death-by-max-restarts"] > 0 || feat["child-died-in-its-own-Started"] > 0 || feat["third-party-stop-overlapping-the-shutdown"] > 0)
		st.Done(c, nt, labels...)
	})
}

func init() {
	vh.RegisterReplay("TestTree", func(raw json.RawMessage) error {
		var c TCase
		if err := json.Unmarshal(raw, &c); err != nil {
			return err
		}
		_, err := run(c)
		return err
	})
}

// Probe for the open finding F7 as it shows in C08: a child that is poisoned by a third
// party while its parent shuts down. The parent's own pill for that child is never
// processed, so the parent waits forever.  The shape is kept out of the generator.
func TestKnownF7(t *testing.T) {
	if !vh.Open("F7", "C08") {
		t.Skip("F7 is not listed as open for C08")
	}
	// the parent's pill has to be queued at the child before the child is released; that
	// moment cannot be observed from outside, so the probe retries with longer pauses
	for _, pause := range []time.Duration{20 * time.Millisecond, 200 * time.Millisecond, time.Second, 4 * time.Second} {
		e, err := actor.NewEngine(actor.NewEngineConfig())
		if err != nil {
			t.Fatalf("harness: %v", err)
		}
		gate := make(chan struct{})
		var child *actor.PID
		parent := e.SpawnFunc(func(c *actor.Context) {
			if _, ok := c.Message().(actor.Started); ok {
				child = c.SpawnChildFunc(func(c *actor.Context) {
					if _, ok := c.Message().(gateMsg); ok {
						<-gate
					}
				}, "kid", actor.WithID("0"))
			}
		}, "par", actor.WithID("0"))
		e.Send(child, gateMsg{})
		e.Poison(child)          // third party
		done := e.Poison(parent) // the parent poisons the child again and waits for that context
		time.Sleep(pause)
		close(gate)
		select {
		case <-done.Done():
		case <-time.After(3 * time.Second):
			vh.KnownFinding("F7", "C08")
			return
		}
	}
	vh.Note("finding F7 (C08) is listed as open but its probe no longer fails on this tree")
}
