// C07 when an id is used again while its former holder is still going down.
//
// An actor that has been told to stop is unregistered before it handles Stopped; from that moment
// its id can be spawned again (C10).  A history: incarnation 0 is stopped and sits in its Stopped
// handler (a gate); incarnation 1 is spawned under the same id and stopped as well; and so on.  The
// gates open in a generated order, and after every opening somebody asks once more for the PID to
// be stopped.  Whatever the engine remembers about actors that are on their way out must not be
// confused by several of them sharing one id:
//
//   - a request made while the LATEST incarnation has not left its Stopped handler is not done when
//     the call returns (checked at once, no clock), and is done once that incarnation has;
//   - the context of every incarnation's own stop request is done no earlier than its gate opens.
package c07

import (
	"context"
	"encoding/json"
	"errors"
	"fmt"
	"sync/atomic"
	"testing"
	"time"

	"github.com/anthdm/hollywood/actor"
	"pgregory.net/rapid"

	"verif/internal/vh"
)

type ReuseCase struct {
	How     []string `json:"how"`     // per incarnation: stop | poison - the request that stops it
	Release []int    `json:"release"` // order in which the Stopped gates open (a permutation)
	Again   []string `json:"again"`   // after each opening: stop | poison | "" - one more request for the PID
}

func runReuse(c ReuseCase) (map[string]int, error) {
	k := len(c.How)
	if k < 2 || k > 4 || len(c.Release) != k || len(c.Again) != k {
		return nil, nil
	}
	seen := map[int]bool{}
	for _, r := range c.Release {
		if r < 0 || r >= k || seen[r] {
			return nil, nil
		}
		seen[r] = true
	}
	feat := map[string]int{}
	e, err := actor.NewEngine(actor.NewEngineConfig())
	if err != nil {
		return nil, fmt.Errorf("%w: %v", errHarness, err)
	}
	type inc struct {
		in, rel chan struct{}
		left    atomic.Bool // the Stopped handler has returned
		ctx     context.Context
	}
	incs := make([]*inc, k)
	var pid *actor.PID
	call := func(how string) context.Context {
		if how == "stop" {
			return e.Stop(pid)
		}
		return e.Poison(pid)
	}
	for i := 0; i < k; i++ {
		x := &inc{in: make(chan struct{}), rel: make(chan struct{})}
		incs[i] = x
		pid = e.SpawnFunc(func(ctx *actor.Context) {
			if _, ok := ctx.Message().(actor.Stopped); ok {
				close(x.in)
				<-x.rel
				x.left.Store(true)
			}
		}, "r", actor.WithID("1"))
		if p := e.Registry.GetPID("r", "1"); p == nil {
			return nil, fmt.Errorf("incarnation %d: the id of an actor that is unregistered (it is handling Stopped) could not be spawned again", i)
		}
		x.ctx = call(c.How[i])
		select {
		case <-x.in:
		case <-time.After(30 * time.Second):
			return nil, fmt.Errorf("%w: incarnation %d never reached its Stopped handler", errHarness, i)
		}
	}
	type late struct {
		ctx    context.Context
		after  int // index into Release
		target int // incarnation that was the latest and still in Stopped, or -1
	}
	var lates []late
	last := k - 1
	for ri, r := range c.Release {
		// nobody's own context may be done while its gate is shut
		for j, x := range incs {
			if x.ctx.Err() != nil && !x.left.Load() {
				return nil, fmt.Errorf("the context of the %s that stops incarnation %d is done, but that incarnation is still inside its Stopped handler", c.How[j], j)
			}
		}
		close(incs[r].rel)
		select {
		case <-incs[r].ctx.Done():
		case <-time.After(30 * time.Second):
			return nil, fmt.Errorf("%w: the context of the %s that stopped incarnation %d is not done although its Stopped handler has returned", errHarness, c.How[r], r)
		}
		if c.Again[ri] == "" {
			continue
		}
		ctx := call(c.Again[ri])
		l := late{ctx: ctx, after: ri, target: -1}
		if !incs[last].left.Load() {
			l.target = last
			// the latest holder of the id is still handling Stopped
			if ctx.Err() != nil {
				return nil, fmt.Errorf("%d incarnations of r/1 were stopped one after the other; gates opened so far: %v.  A %s of the PID made now returned a context that is already done, although the latest incarnation (%d) is still inside its Stopped handler", k, c.Release[:ri+1], c.Again[ri], last)
			}
			feat["request-while-the-latest-of-several-stopping-incarnations-handles-Stopped"]++
		}
		lates = append(lates, l)
	}
	for _, l := range lates {
		select {
		case <-l.ctx.Done():
		case <-time.After(30 * time.Second):
			return nil, fmt.Errorf("%w: a further stop request (after opening %d) is not done although every incarnation has handled Stopped", errHarness, l.after)
		}
	}
	if p := e.Registry.GetPID("r", "1"); p != nil {
		return nil, fmt.Errorf("every incarnation of r/1 has stopped, yet the id is registered: %v", p)
	}
	feat["id-reused-while-the-former-holder-handles-Stopped"]++
	return feat, nil
}

func TestStopReuse(t *testing.T) {
	st := vh.Test("TestStopReuse")
	rapid.Check(t, func(t *rapid.T) {
		k := rapid.IntRange(2, 4).Draw(t, "incarnations")
		c := ReuseCase{Release: rapid.Permutation(seq(k)).Draw(t, "release")}
		for i := 0; i < k; i++ {
			c.How = append(c.How, rapid.SampledFrom([]string{"stop", "poison"}).Draw(t, "how"))
			c.Again = append(c.Again, rapid.SampledFrom([]string{"", "stop", "poison"}).Draw(t, "again"))
		}
		st.Begin(c)
		feat, err := runReuse(c)
		if err != nil {
			if errors.Is(err, errHarness) {
				t.Fatalf("harness: %v", err)
			}
			st.Fail(c, err)
			t.Fatalf("%v", err)
		}
		var labels []string
		for l := range feat {
			labels = append(labels, l)
		}
		st.Done(c, feat["request-while-the-latest-of-several-stopping-incarnations-handles-Stopped"] > 0, labels...)
	})
}

func seq(n int) []int {
	s := make([]int, n)
	for i := range s {
		s[i] = i
	}
	return s
}

func init() {
	vh.RegisterReplay("TestStopReuse", func(raw json.RawMessage) error {
		var c ReuseCase
		if err := json.Unmarshal(raw, &c); err != nil {
			return err
		}
		_, err := runReuse(c)
		return err
	})
}
