// C07, concurrent leg: several callers Stop/Poison ONE actor at the same time.
//
// The single-driver histories of TestStopPoison own the batch geometry; they cannot make two
// stop requests overlap the clean-up of the actor.  Here 2..6 caller goroutines are released
// by one barrier (optionally staggered by generated spin counts), next to senders, an optional
// crash with an exhausted restart budget and a Stopped handler of generated duration.  The
// oracle uses only what the property states for EVERY such context:
//
//   - it eventually becomes done (decided once the actor is known to be stopped and
//     unregistered: after that no code path can delay cancel() except goroutine scheduling;
//     5 s grace - DESIGN 1.3 rule 2),
//   - at the moment it is done the actor has handled Stopped, its id is unregistered, and a
//     probe sent afterwards is never delivered and dead-letters exactly once,
//   - no engine-private message type reaches Receive.
//
// The drain clause of Poison is NOT judged here: with competing pills it depends on which pill
// reaches the inbox first (TestStopPoison decides it exactly).
package c07

import (
	"context"
	"encoding/json"
	"errors"
	"fmt"
	"runtime"
	"strings"
	"sync"
	"sync/atomic"
	"testing"
	"time"

	"github.com/anthdm/hollywood/actor"
	"pgregory.net/rapid"

	"verif/internal/vh"
)

type Caller struct {
	How   string `json:"how"`             // stop | poison | poisonctx
	Spin  int    `json:"spin,omitempty"`  // Gosched calls after the barrier, before the call
	Sends int    `json:"sends,omitempty"` // messages this caller sends to the actor before its call
}

type CCase struct {
	Callers     []Caller `json:"callers"`
	Senders     int      `json:"senders"`           // extra sender goroutines
	PerSender   int      `json:"per_sender"`        // messages per extra sender
	Backlog     int      `json:"backlog,omitempty"` // messages queued behind a gate before the barrier (0 = actor idle)
	StoppedSpin int      `json:"stopped_spin"`      // Gosched calls inside the Stopped handler (widens the unregistered-but-not-stopped window)
	Crash       bool     `json:"crash,omitempty"`   // a panicking message (MaxRestarts 0) is among the racing sends
	Children    int      `json:"children,omitempty"`
	InboxSize   int      `json:"inbox_size"`
}

type cMsg struct{ N int }
type cGate struct{ ch chan struct{} }
type cCrash struct{}
type cProbe struct{ Caller int }

var errHarness = errors.New("harness")

func genConc(t *rapid.T) CCase {
	c := CCase{
		Senders:     rapid.IntRange(0, 2).Draw(t, "senders"),
		PerSender:   rapid.IntRange(1, 20).Draw(t, "per_sender"),
		StoppedSpin: rapid.SampledFrom([]int{0, 0, 1, 5, 50, 500}).Draw(t, "stopped_spin"),
		Crash:       rapid.IntRange(0, 4).Draw(t, "crash") == 0,
		Children:    rapid.SampledFrom([]int{0, 0, 0, 1, 3}).Draw(t, "children"),
		InboxSize:   rapid.SampledFrom([]int{1, 2, 8, 1024}).Draw(t, "inbox"),
	}
	if rapid.Bool().Draw(t, "gated") {
		c.Backlog = rapid.IntRange(1, 10).Draw(t, "backlog")
	}
	n := rapid.IntRange(2, 6).Draw(t, "ncallers")
	for i := 0; i < n; i++ {
		c.Callers = append(c.Callers, Caller{
			How:   rapid.SampledFrom([]string{"stop", "poison", "poison", "poisonctx"}).Draw(t, "how"),
			Spin:  rapid.SampledFrom([]int{0, 0, 0, 1, 3, 10, 100, 1000}).Draw(t, "spin"),
			Sends: rapid.IntRange(0, 3).Draw(t, "sends"),
		})
	}
	return c
}

func runConc(c CCase) (map[string]int, error) {
	if len(c.Callers) < 1 || len(c.Callers) > 8 || c.Senders < 0 || c.Senders > 4 || c.PerSender > 100 || c.Backlog > 100 || c.Children > 4 {
		return nil, nil
	}
	feat := map[string]int{}
	e, err := actor.NewEngine(actor.NewEngineConfig())
	if err != nil {
		return nil, fmt.Errorf("%w: %v", errHarness, err)
	}
	var (
		seq       atomic.Int64
		stopStamp atomic.Int64 // sequence number at the END of the Stopped handler
		stops     atomic.Int64
		foreign   atomic.Value
		probes    sync.Map // caller -> delivered
		mu        sync.Mutex
		dlProbes  = map[int]int{}
		monSync   = make(chan int, 64)
		stoppedEv = make(chan struct{}, 8)
	)
	target := actor.NewPID("local", "tgt/1")
	mon := e.SpawnFunc(func(ctx *actor.Context) {
		switch m := ctx.Message().(type) {
		case actor.DeadLetterEvent:
			if p, ok := m.Message.(cProbe); ok && m.Target != nil && m.Target.ID == target.ID {
				mu.Lock()
				dlProbes[p.Caller]++
				mu.Unlock()
			}
		case actor.ActorStoppedEvent:
			if m.PID.ID == target.ID {
				stoppedEv <- struct{}{}
			}
		case cMsg:
			monSync <- m.N
		}
	}, "mon", actor.WithID("1"))
	e.Subscribe(mon)
	// make sure the subscription is in place
	e.BroadcastEvent(cMsg{N: -1})
	select {
	case <-monSync:
	case <-time.After(20 * time.Second):
		return nil, fmt.Errorf("%w: monitor not subscribed", errHarness)
	}
	pid := e.SpawnFunc(func(ctx *actor.Context) {
		switch m := ctx.Message().(type) {
		case actor.Initialized:
		case actor.Started:
			for i := 0; i < c.Children; i++ {
				ctx.SpawnChildFunc(func(*actor.Context) {}, "kid", actor.WithID(fmt.Sprint(i)))
			}
		case actor.Stopped:
			for i := 0; i < c.StoppedSpin; i++ {
				runtime.Gosched()
			}
			stops.Add(1)
			stopStamp.Store(seq.Add(1))
		case cGate:
			<-m.ch
		case cMsg:
		case cCrash:
			panic("generated crash")
		case cProbe:
			probes.Store(m.Caller, true)
		default:
			foreign.Store(fmt.Sprintf("%T", m))
		}
	}, "tgt", actor.WithID("1"), actor.WithMaxRestarts(0), actor.WithInboxSize(c.InboxSize))
	var gate chan struct{}
	if c.Backlog > 0 {
		gate = make(chan struct{})
		e.Send(pid, cGate{gate})
		for i := 0; i < c.Backlog; i++ {
			e.Send(pid, cMsg{i})
		}
		feat["actor-busy-with-backlog"]++
	}
	start := make(chan struct{})
	var wg sync.WaitGroup
	done := make([]chan struct{}, len(c.Callers))
	bad := make([]atomic.Value, len(c.Callers))
	for i, cl := range c.Callers {
		i, cl := i, cl
		done[i] = make(chan struct{})
		wg.Add(1)
		go func() {
			defer wg.Done()
			<-start
			for k := 0; k < cl.Spin; k++ {
				runtime.Gosched()
			}
			for k := 0; k < cl.Sends; k++ {
				e.Send(pid, cMsg{1000*i + k})
			}
			var d <-chan struct{}
			switch cl.How {
			case "stop":
				d = e.Stop(pid).Done()
			case "poison":
				d = e.Poison(pid).Done()
			default:
				d = e.PoisonCtx(context.Background(), pid).Done()
			}
			go func() {
				<-d
				at := seq.Add(1)
				st := stopStamp.Load()
				reg := e.Registry.GetPID("tgt", "1") != nil
				switch {
				case st == 0 || st > at:
					bad[i].Store(fmt.Sprintf("the context of %s call #%d became done before the actor had handled Stopped", cl.How, i))
				case reg:
					bad[i].Store(fmt.Sprintf("when the context of %s call #%d became done the actor id was still registered", cl.How, i))
				}
				e.Send(pid, cProbe{Caller: i})
				close(done[i])
			}()
		}()
	}
	for s := 0; s < c.Senders; s++ {
		s := s
		wg.Add(1)
		go func() {
			defer wg.Done()
			<-start
			for k := 0; k < c.PerSender; k++ {
				e.Send(pid, cMsg{100000*(s+1) + k})
			}
		}()
	}
	if c.Crash {
		wg.Add(1)
		go func() {
			defer wg.Done()
			<-start
			e.Send(pid, cCrash{})
		}()
		feat["crash-with-budget-0-races-the-stops"]++
	}
	close(start)
	if gate != nil {
		close(gate)
	}
	wg.Wait()
	// the actor is stopped: ActorStoppedEvent observed, id unregistered
	select {
	case <-stoppedEv:
	case <-time.After(30 * time.Second):
		return nil, fmt.Errorf("%w: bounded wait expired: no ActorStoppedEvent for the target after %d stop requests", errHarness, len(c.Callers))
	}
	if e.Registry.GetPID("tgt", "1") != nil {
		return nil, fmt.Errorf("the actor id is still registered after ActorStoppedEvent was published")
	}
	for i, cl := range c.Callers {
		select {
		case <-done[i]:
		case <-time.After(5 * time.Second):
			return nil, fmt.Errorf("the context of %s call #%d (of %d concurrent stop requests) never became done although the actor has handled Stopped and is unregistered", cl.How, i, len(c.Callers))
		}
		if b, _ := bad[i].Load().(string); b != "" {
			return nil, errors.New(b)
		}
	}
	// barrier: everything broadcast so far has reached the monitor
	e.BroadcastEvent(cMsg{N: -2})
	select {
	case <-monSync:
	case <-time.After(20 * time.Second):
		return nil, fmt.Errorf("%w: bounded wait expired: monitor barrier", errHarness)
	}
	if n := stops.Load(); n != 1 {
		return nil, fmt.Errorf("the actor handled Stopped %d times", n)
	}
	if f, _ := foreign.Load().(string); f != "" {
		return nil, fmt.Errorf("a message of type %s, which the harness never sent, reached Receive (poison pills must stay private to the engine)", f)
	}
	mu.Lock()
	defer mu.Unlock()
	for i, cl := range c.Callers {
		if _, ok := probes.Load(i); ok {
			return nil, fmt.Errorf("a message sent after the context of %s call #%d was done was delivered to the actor", cl.How, i)
		}
		if dlProbes[i] != 1 {
			return nil, fmt.Errorf("the probe sent after the context of %s call #%d was done produced %d DeadLetterEvents, expected 1", cl.How, i, dlProbes[i])
		}
	}
	e.Unsubscribe(mon)
	<-e.Poison(mon).Done()
	hows := map[string]bool{}
	for _, cl := range c.Callers {
		hows[cl.How] = true
	}
	if len(hows) >= 2 {
		feat["mixed-stop-and-poison"]++
	}
	if c.StoppedSpin > 0 {
		feat["slow-Stopped-handler"]++
	}
	if c.Children > 0 {
		feat["has-children"]++
	}
	return feat, nil
}

func TestConcurrentStops(t *testing.T) {
	st := vh.Test("TestConcurrentStops")
	rapid.Check(t, func(t *rapid.T) {
		c := genConc(t)
		st.Begin(c)
		feat, err := runConc(c)
		if errors.Is(err, errHarness) {
			if st.Failed() > 0 {
				return
			}
			t.Fatalf("harness: %v", err)
		}
		if err != nil {
			st.Fail(c, err)
			t.Fatalf("%v", err)
		}
		var labels []string
		for k := range feat {
			labels = append(labels, k)
		}
		// non-trivial: >= 2 concurrent requests of which >= 1 can overlap the clean-up (always true
		// for >= 2 callers) and something else is going on: senders, a backlog, a crash or a slow Stopped
		nt := len(c.Callers) >= 2 && (c.Senders > 0 || c.Backlog > 0 || c.Crash || c.StoppedSpin > 0)
		st.Done(c, nt, labels...)
	})
}

func init() {
	vh.RegisterReplay("TestConcurrentStops", func(raw json.RawMessage) error {
		var c CCase
		if err := json.Unmarshal(raw, &c); err != nil {
			return err
		}
		// schedule dependent: a replay runs the case repeatedly
		var last error
		for i := 0; i < 200; i++ {
			_, err := runConc(c)
			if err != nil && !strings.HasPrefix(err.Error(), "harness") {
				return err
			}
			last = err
		}
		return last
	})
}

// ---- stop requests for PIDs that name nobody ------------------------------------------------

// UCase: "Every such context eventually becomes done - also for an unknown or already stopped PID".
// Nothing is pending for such a request, so its context is done when the call returns or never.
type UCase struct {
	Reqs []UReq `json:"reqs"`
}

type UReq struct {
	How  string `json:"how"`  // stop | poison | poisonctx
	What string `json:"what"` // nil | unknown | foreign (unknown id on another address) | stopped | stopped-foreign
}

func runUnknown(c UCase) (firstErr error) {
	if len(c.Reqs) < 1 || len(c.Reqs) > 12 {
		return nil
	}
	e, err := actor.NewEngine(actor.NewEngineConfig())
	if err != nil {
		return fmt.Errorf("%w: %v", errHarness, err)
	}
	old := e.SpawnFunc(func(*actor.Context) {}, "gone", actor.WithID("1"))
	<-e.Poison(old).Done()
	by := e.SpawnFunc(func(ctx *actor.Context) {
		if _, ok := ctx.Message().(int); ok {
			ctx.Respond("pong")
		}
	}, "bystander")
	for i, r := range c.Reqs {
		var pid *actor.PID
		switch r.What {
		case "nil":
		case "unknown":
			pid = actor.NewPID(e.Address(), fmt.Sprintf("nobody/%d", i))
		case "foreign":
			pid = actor.NewPID("10.1.2.3:4000", fmt.Sprintf("nobody/%d", i))
		case "stopped":
			pid = actor.NewPID(e.Address(), "gone/1")
		case "stopped-foreign":
			pid = actor.NewPID("10.1.2.3:4000", "gone/1")
		case "foreign-namesake":
			// an actor on ANOTHER node that happens to have the id of a live local actor: the local one
			// is not the target (it must still answer at the end)
			pid = actor.NewPID("10.1.2.3:4000", by.ID)
		case "response":
			// the temporary PID behind an outstanding Request is registered, but it is no actor: nobody
			// will ever handle Stopped for it, and the request is not the stop request's business
			silent := e.SpawnFunc(func(*actor.Context) {}, "silent", actor.WithID(fmt.Sprint(i)))
			rs := e.Request(silent, "no answer", 100*time.Millisecond)
			pid = rs.PID()
			defer func(i int) {
				v, rerr := rs.Result()
				if rerr == nil && firstErr == nil {
					firstErr = fmt.Errorf("request %d: nobody replied to the request, and a stop request was made for its response PID: Result() returned %T %v", i, v, v)
				}
				e.Poison(silent)
			}(i)
		default:
			return nil
		}
		var ctx context.Context
		var perr any
		func() {
			defer func() { perr = recover() }()
			switch r.How {
			case "stop":
				ctx = e.Stop(pid)
			case "poison":
				ctx = e.Poison(pid)
			default:
				ctx = e.PoisonCtx(context.Background(), pid)
			}
		}()
		if perr != nil {
			return fmt.Errorf("request %d: %s of a %s PID panicked: %v", i, r.How, r.What, perr)
		}
		select {
		case <-ctx.Done():
		case <-time.After(5 * time.Second):
			return fmt.Errorf("request %d: the context of %s for a %s PID (%v) never became done; nobody is left who could complete it", i, r.How, r.What, pid)
		}
	}
	if v, rerr := e.Request(by, 1, 10*time.Second).Result(); rerr != nil || v != "pong" {
		return fmt.Errorf("after stop requests for unknown PIDs a bystander actor no longer answers (%v)", rerr)
	}
	return nil
}

func TestStopUnknown(t *testing.T) {
	st := vh.Test("TestStopUnknown")
	rapid.Check(t, func(t *rapid.T) {
		n := rapid.IntRange(1, 6).Draw(t, "n")
		c := UCase{}
		for i := 0; i < n; i++ {
			c.Reqs = append(c.Reqs, UReq{
				How:  rapid.SampledFrom([]string{"stop", "poison", "poisonctx"}).Draw(t, "how"),
				What: rapid.SampledFrom([]string{"nil", "unknown", "foreign", "stopped", "stopped-foreign", "foreign-namesake", "response", "response"}).Draw(t, "what"),
			})
		}
		st.Begin(c)
		if err := runUnknown(c); err != nil {
			if errors.Is(err, errHarness) {
				t.Fatalf("harness: %v", err)
			}
			st.Fail(c, err)
			t.Fatalf("%v", err)
		}
		kinds := map[string]bool{}
		for _, r := range c.Reqs {
			kinds[r.What] = true
		}
		st.Done(c, len(kinds) >= 2, "stop-requests-for-nobody")
	})
}

func init() {
	vh.RegisterReplay("TestStopUnknown", func(raw json.RawMessage) error {
		var c UCase
		if err := json.Unmarshal(raw, &c); err != nil {
			return err
		}
		return runUnknown(c)
	})
}
