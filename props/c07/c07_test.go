// C07: Stop/Poison - drain, stop, then signal; every caller is signalled.
package c07

import (
	"testing"

	"pgregory.net/rapid"

	"verif/internal/life"
	"verif/internal/vh"
)

func TestMain(m *testing.M)   { vh.Main(m) }
func TestReplay(t *testing.T) { vh.Replay(t) }

var profile = life.Profile{
	MaxOps: 20, WSend: 8, WPanic: 3, WGate: 3, WRelease: 3, WPoison: 3, WStop: 3, WRespawn: 2, WBurst: 1,
	MaxChain: 1, MaxChildren: 0, Lifecycle: true, SpawnSends: false, MaxBudget: 3, BigBurst: true,
}

// non-trivial: >= 2 pills, or a pill with messages on each side in one queued window, or a
// pill meeting a crash.
func nontrivial(f life.Features) bool {
	return f.Pills >= 2 || f.PillWithBothSides || f.PillMeetsCrash
}

func oracle(expectOrphans bool) life.Oracle {
	return func(spec life.Spec, o *life.Obs, sim *life.Sim) error {
		return life.CheckC07(spec, o, sim, expectOrphans)
	}
}

func TestStopPoison(t *testing.T) {
	st := vh.Test("TestStopPoison")
	f7 := vh.Open("F7", "C07")
	rapid.Check(t, func(t *rapid.T) {
		spec, excl := life.Normalize(life.Gen(t, profile), f7)
		for i := 0; i < excl; i++ {
			st.Exclude("F7: Stop/Poison call whose pill is not the one that stops the actor")
		}
		life.Property(t, st, spec, !f7, oracle(!f7), nontrivial)
	})
}

// Probe for the open finding F7: two Stop calls for one live actor; the second context
// never completes.
func TestKnownF7(t *testing.T) {
	if !vh.Open("F7", "C07") {
		t.Skip("F7 is not listed as open")
	}
	spec := life.Spec{MaxRestarts: 1, Ops: []life.Op{{K: "gate"}, {K: "stop"}, {K: "stop"}, {K: "release"}}}
	_, _, err := life.RunCase(spec, true, oracle(true))
	if err != nil {
		vh.KnownFinding("F7", "C07")
		return
	}
	vh.Note("finding F7 (C07) is listed as open but its probe no longer fails on this tree")
}

func init() {
	vh.RegisterReplay("TestStopPoison", life.Replayer(true, oracle(true)))
}
