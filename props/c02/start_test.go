// C02 while an actor is still starting: "the spawning goroutine, stop/poison callers and the inbox
// worker" all have a reason to call Receive.  The receiver blocks INSIDE its Initialized or Started
// handler (a gate); meanwhile other goroutines send messages and ask for the actor to be stopped;
// optionally the handler panics when the gate opens, so that the same happens around the restart.
// Several goroutines spawn the same id at once.  Every Receive of one actor (= of the receivers
// produced for one Spawn call, restarts included) passes an entry/exit counter: an entry that finds
// another invocation inside is an overlap, observed for certain (the other one is parked in the
// gate).  A later Spawn call that finds the id free again (the first actor is unregistered before it
// handles Stopped) makes ANOTHER actor; its Initialized may run next to the first one's Stopped.
package c02

import (
	"encoding/json"
	"errors"
	"fmt"
	"sync"
	"sync/atomic"
	"testing"
	"time"

	"github.com/anthdm/hollywood/actor"
	"pgregory.net/rapid"

	"verif/internal/vh"
)

type StartCase struct {
	GateIn   string   `json:"gate_in"`  // Initialized | Started: the handler of the first incarnation that blocks
	Panic    bool     `json:"panic"`    // that handler panics when the gate opens (restart with a delay)
	DelayMs  int      `json:"delay_ms"` // RestartDelay
	Sends    int      `json:"sends"`    // user messages sent while the handler is blocked
	Stops    []string `json:"stops"`    // stop | poison requests made while the handler is blocked
	Spawners int      `json:"spawners"` // goroutines that Spawn the same id at the same time (1 = no race)
}

var errStartHarness = errors.New("harness")

func runStart(c StartCase) (map[string]int, error) {
	if (c.GateIn != "Initialized" && c.GateIn != "Started") || c.DelayMs < 0 || c.DelayMs > 30 || c.Sends < 0 || c.Sends > 20 || len(c.Stops) > 3 || c.Spawners < 1 || c.Spawners > 4 {
		return nil, nil
	}
	feat := map[string]int{}
	e, err := actor.NewEngine(actor.NewEngineConfig())
	if err != nil {
		return nil, fmt.Errorf("%w: %v", errStartHarness, err)
	}
	var (
		active  = make([]atomic.Int32, c.Spawners) // per Spawn call: one actor = one successful Spawn
		mu      sync.Mutex
		overlap string
		log     []string
		incs    int
		gateIn  = make(chan struct{})
		gateOut = make(chan struct{})
		gated   atomic.Bool
	)
	producerOf := func(g int) actor.Producer {
		return func() actor.Receiver {
			active := &active[g]
			mu.Lock()
			incs++
			inc := incs
			mu.Unlock()
			return recvFn(func(ctx *actor.Context) {
				kind := fmt.Sprintf("%T", ctx.Message())
				if n := active.Add(1); n > 1 {
					mu.Lock()
					if overlap == "" {
						overlap = fmt.Sprintf("Receive(%s) of receiver #%d was entered while another Receive of the same actor was running; log so far: %v", kind, inc, log)
					}
					mu.Unlock()
				}
				mu.Lock()
				log = append(log, fmt.Sprintf("%d:%s", inc, kind))
				mu.Unlock()
				if kind == "actor."+c.GateIn && gated.CompareAndSwap(false, true) {
					close(gateIn)
					<-gateOut
					if c.Panic {
						active.Add(-1)
						panic("generated panic at the end of the gated handler")
					}
				}
				active.Add(-1)
			})
		}
	}
	spawned := make(chan struct{})
	var wg sync.WaitGroup
	start := make(chan struct{})
	for g := 0; g < c.Spawners; g++ {
		wg.Add(1)
		go func(g int) {
			defer wg.Done()
			<-start
			e.Spawn(producerOf(g), "s", actor.WithID("1"), actor.WithRestartDelay(time.Duration(c.DelayMs)*time.Millisecond), actor.WithMaxRestarts(3))
		}(g)
	}
	go func() { wg.Wait(); close(spawned) }()
	close(start)
	select {
	case <-gateIn:
	case <-time.After(30 * time.Second):
		return nil, fmt.Errorf("%w: the first incarnation never reached %s", errStartHarness, c.GateIn)
	}
	pid := actor.NewPID(e.Address(), "s/1")
	for i := 0; i < c.Sends; i++ {
		e.Send(pid, i)
	}
	var ctxs []<-chan struct{}
	var rets []chan (<-chan struct{})
	for _, h := range c.Stops {
		// normally the call returns at once (the request is queued); if it does not, the gate decides below
		ret := make(chan (<-chan struct{}), 1)
		rets = append(rets, ret)
		go func(h string) {
			if h == "stop" {
				ret <- e.Stop(pid).Done()
			} else {
				ret <- e.Poison(pid).Done()
			}
		}(h)
		select {
		case d := <-ret:
			ret <- d
		case <-time.After(2 * time.Second):
			feat["stop-call-did-not-return-while-the-handler-was-blocked"]++
		}
	}
	mu.Lock()
	ov := overlap
	mu.Unlock()
	if ov != "" {
		close(gateOut)
		return nil, errors.New(ov)
	}
	close(gateOut)
	select {
	case <-spawned:
	case <-time.After(30 * time.Second):
		return nil, fmt.Errorf("%w: Spawn did not return", errStartHarness)
	}
	for _, ret := range rets {
		select {
		case d := <-ret:
			ctxs = append(ctxs, d)
		case <-time.After(30 * time.Second):
			return nil, fmt.Errorf("%w: a stop call never returned", errStartHarness)
		}
	}
	if len(c.Stops) == 0 {
		ctxs = append(ctxs, e.Poison(pid).Done())
	}
	for _, d := range ctxs {
		select {
		case <-d:
		case <-time.After(30 * time.Second):
			return nil, fmt.Errorf("%w: a stop context is not done", errStartHarness)
		}
	}
	mu.Lock()
	defer mu.Unlock()
	if overlap != "" {
		return nil, errors.New(overlap)
	}
	// (with stop requests in the case a slow spawner may legitimately find the id free again)
	if c.Spawners > 1 && incs > 1 && !c.Panic && len(c.Stops) == 0 {
		return nil, fmt.Errorf("%d goroutines spawned s/1 at the same time and the Producer ran %d times: more than one receiver answers to one id, their Receive calls are not ordered with each other; log: %v", c.Spawners, incs, log)
	}
	// ---- racing spawns, many rounds: 4 goroutines spawn one fresh id at the same moment; exactly one
	// Producer runs (two receivers under one PID would have their Receive calls unordered)
	if c.Spawners > 1 {
		mu.Unlock()
		err := spawnRaces(e, c.Spawners, 25)
		mu.Lock()
		if err != nil {
			return nil, err
		}
	}
	if len(c.Stops) > 0 {
		feat["stop-request-while-the-actor-is-starting"]++
	}
	if c.Panic {
		feat["panic-at-the-end-of-the-start-handler"]++
	}
	if c.Spawners > 1 {
		feat["racing-spawns-of-one-id"]++
	}
	return feat, nil
}

func spawnRaces(e *actor.Engine, spawners, rounds int) error {
	for r := 0; r < rounds; r++ {
		var ran atomic.Int32
		var wg sync.WaitGroup
		start := make(chan struct{})
		id := fmt.Sprint(r)
		for g := 0; g < spawners; g++ {
			wg.Add(1)
			go func() {
				defer wg.Done()
				<-start
				e.Spawn(func() actor.Receiver { ran.Add(1); return recvFn(func(*actor.Context) {}) }, "race", actor.WithID(id))
			}()
		}
		close(start)
		wg.Wait()
		if n := ran.Load(); n != 1 {
			return fmt.Errorf("round %d: %d goroutines spawned race/%s at the same moment and the Producer ran %d times: %d receivers answer to one PID, their Receive calls are not ordered with each other", r, spawners, id, n, n)
		}
		e.Poison(actor.NewPID(e.Address(), "race/"+id))
	}
	return nil
}

type recvFn func(*actor.Context)

func (r recvFn) Receive(c *actor.Context) { r(c) }

func TestStartOverlap(t *testing.T) {
	st := vh.Test("TestStartOverlap")
	rapid.Check(t, func(t *rapid.T) {
		c := StartCase{
			GateIn:   rapid.SampledFrom([]string{"Initialized", "Started", "Started"}).Draw(t, "gate_in"),
			Panic:    rapid.IntRange(0, 2).Draw(t, "panic") == 0,
			DelayMs:  rapid.SampledFrom([]int{0, 0, 5, 20}).Draw(t, "delay"),
			Sends:    rapid.IntRange(0, 8).Draw(t, "sends"),
			Stops:    rapid.SliceOfN(rapid.SampledFrom([]string{"stop", "poison"}), 0, 2).Draw(t, "stops"),
			Spawners: rapid.SampledFrom([]int{1, 1, 2, 4}).Draw(t, "spawners"),
		}
		st.Begin(c)
		feat, err := runStart(c)
		if errors.Is(err, errStartHarness) {
			if st.Failed() > 0 {
				return
			}
			t.Fatalf("harness: %v", err)
		}
		if err != nil {
			st.Fail(c, err)
			t.Fatalf("%v", err)
		}
		var labels []string
		for l := range feat {
			labels = append(labels, l)
		}
		st.Done(c, len(c.Stops) > 0 || c.Spawners > 1, labels...)
	})
}

func init() {
	vh.RegisterReplay("TestStartOverlap", func(raw json.RawMessage) error {
		var c StartCase
		if err := json.Unmarshal(raw, &c); err != nil {
			return err
		}
		for i := 0; i < 5; i++ {
			if _, err := runStart(c); err != nil {
				return err
			}
		}
		return nil
	})
}
