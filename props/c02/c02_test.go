// C02, real-goroutine leg: one actor processes one message at a time - across gates, crashes,
// restarts, replays of the restart buffer, stops and respawns.
//
// The schedule-owning legs (props/sched) explore the hand-off protocol of the inbox exhaustively
// for tiny configurations; what they reach only with luck are overlaps that need a long, specific
// history first (crash, backlog queued during the restart, a slow delivery, one more send).  Here
// the history is the generated value: gates block the receiver INSIDE Receive, so "a second worker
// delivers something meanwhile" is observed for certain instead of by timing.
package c02

import (
	"testing"

	"pgregory.net/rapid"

	"verif/internal/life"
	"verif/internal/vh"
)

func TestMain(m *testing.M)   { vh.Main(m) }
func TestReplay(t *testing.T) { vh.Replay(t) }

var profile = life.Profile{
	MaxOps: 24, WSend: 7, WPanic: 4, WGate: 5, WRelease: 4, WPoison: 1, WStop: 1, WRespawn: 2, WBurst: 2,
	MaxChain: 1, MaxChildren: 0, Lifecycle: true, SpawnSends: true, MaxBudget: 4,
	Spins: []int{0, 0, 10, 100, 1000}, WChain: 2,
}

// non-trivial: a crash happened and a gate (blocked Receive) was part of the history, or
// messages raced with the start-up of the actor.
func nontrivial(f life.Features) bool {
	return (f.Crashes > 0 && (f.Gates > 0 || f.StartGate)) || f.SpawnSends
}

func TestSerialHistories(t *testing.T) {
	st := vh.Test("TestSerialHistories")
	rapid.Check(t, func(t *rapid.T) {
		spec, _ := life.Normalize(life.Gen(t, profile), false)
		life.Property(t, st, spec, true, life.CheckC02, nontrivial)
	})
}

func init() {
	vh.RegisterReplay("TestSerialHistories", life.Replayer(true, life.CheckC02))
}
