// C13, "the Context shows the message and sender of that delivery" for every message VALUE: a user
// message may be of any type, the engine's own lifecycle types and nil included (an actor that
// forwards its Stopped to a supervisor, a Request carrying Started{} as a ping).  Whatever the
// engine does for the messages it sends itself, a delivery that came with a sender shows that sender
// at every layer, on the way in and on the way out.
package c13

import (
	"encoding/json"
	"fmt"
	"sync"
	"sync/atomic"
	"testing"
	"time"

	"github.com/anthdm/hollywood/actor"
	"pgregory.net/rapid"

	"verif/internal/vh"
)

type VCase struct {
	Chain int   `json:"chain"` // middleware layers 0..3
	Msgs  []int `json:"msgs"`  // per message: value kind 0..5 (string, int, nil, Initialized{}, Started{}, Stopped{})
	Via   []int `json:"via"`   // 0 = SendWithSender, 1 = Context.Forward from a relay actor (the relay is the sender), 2 = Request (the response PID is the sender)
}

func valueOf(k int) any {
	switch k {
	case 0:
		return "text"
	case 1:
		return 42
	case 2:
		return nil
	case 3:
		return actor.Initialized{}
	case 4:
		return actor.Started{}
	}
	return actor.Stopped{}
}

type seen struct {
	who    string
	typ    string
	sender string
}

func runValues(c VCase) error {
	if c.Chain < 0 || c.Chain > 3 || len(c.Msgs) < 1 || len(c.Msgs) > 12 || len(c.Via) != len(c.Msgs) {
		return nil
	}
	e, err := actor.NewEngine(actor.NewEngineConfig())
	if err != nil {
		return fmt.Errorf("harness: %v", err)
	}
	var mu sync.Mutex
	var log []seen
	started := false
	pidS := func(p *actor.PID) string {
		if p == nil {
			return "<nil>"
		}
		return p.ID
	}
	rec := func(who string, ctx *actor.Context) {
		mu.Lock()
		if started {
			log = append(log, seen{who, fmt.Sprintf("%T", ctx.Message()), pidS(ctx.Sender())})
		}
		mu.Unlock()
	}
	var mws []actor.MiddlewareFunc
	for i := 0; i < c.Chain; i++ {
		i := i
		mws = append(mws, func(next actor.ReceiveFunc) actor.ReceiveFunc {
			return func(ctx *actor.Context) {
				rec(fmt.Sprintf("M%d.in", i), ctx)
				next(ctx)
				rec(fmt.Sprintf("M%d.out", i), ctx)
			}
		})
	}
	done := make(chan struct{}, 64)
	opts := []actor.OptFunc{actor.WithID("1")}
	if len(mws) > 0 {
		opts = append(opts, actor.WithMiddleware(mws...))
	}
	pid := e.SpawnFunc(func(ctx *actor.Context) {
		rec("R", ctx)
		mu.Lock()
		s := started
		mu.Unlock()
		if s {
			done <- struct{}{}
		}
	}, "v", opts...)
	var relayUp atomic.Bool
	relay := e.SpawnFunc(func(ctx *actor.Context) {
		if !relayUp.Load() {
			return // the relay's own start-up (Spawn has not returned yet)
		}
		ctx.Forward(pid)
	}, "relay", actor.WithID("1"))
	relayUp.Store(true)
	mu.Lock()
	started = true // the target's own Initialized/Started are over: Spawn has returned
	mu.Unlock()
	from := actor.NewPID("local", "from/1")
	for i, k := range c.Msgs {
		if k < 0 || k > 5 || c.Via[i] < 0 || c.Via[i] > 2 {
			return nil
		}
		mu.Lock()
		base := len(log)
		mu.Unlock()
		want := ""
		switch c.Via[i] {
		case 0:
			e.SendWithSender(pid, valueOf(k), from)
			want = from.ID
		case 1:
			if k == 5 {
				continue // a Stopped{} sent to the relay is the relay's own business
			}
			e.SendWithSender(relay, valueOf(k), from)
			want = relay.ID
		case 2:
			r := e.Request(pid, valueOf(k), 20*time.Millisecond)
			want = r.PID().ID
			defer r.Result()
		}
		select {
		case <-done:
		case <-time.After(20 * time.Second):
			return fmt.Errorf("harness: bounded wait expired: message %d (%T) never reached the receiver", i, valueOf(k))
		}
		// the outer layers log their way out after the receiver has signalled: wait for the whole bracket
		deadline := time.Now().Add(20 * time.Second)
		for {
			mu.Lock()
			n := len(log) - base
			l := append([]seen(nil), log[base:]...)
			mu.Unlock()
			if n >= 2*c.Chain+1 {
				for _, s := range l[:2*c.Chain+1] {
					if s.sender != want {
						return fmt.Errorf("message %d, a %T sent with sender %s (via %d): %s was shown sender %s; the whole delivery: %v", i, valueOf(k), want, c.Via[i], s.who, s.sender, l)
					}
				}
				break
			}
			if time.Now().After(deadline) {
				return fmt.Errorf("harness: bounded wait expired: the chain did not unwind")
			}
			time.Sleep(50 * time.Microsecond)
		}
	}
	<-e.Poison(relay).Done()
	<-e.Poison(pid).Done()
	return nil
}

func TestMessageValues(t *testing.T) {
	st := vh.Test("TestMessageValues")
	rapid.Check(t, func(t *rapid.T) {
		c := VCase{Chain: rapid.IntRange(0, 3).Draw(t, "chain")}
		n := rapid.IntRange(1, 8).Draw(t, "n")
		life := false
		for i := 0; i < n; i++ {
			k := rapid.IntRange(0, 5).Draw(t, "kind")
			c.Msgs = append(c.Msgs, k)
			c.Via = append(c.Via, rapid.IntRange(0, 2).Draw(t, "via"))
			life = life || k >= 3
		}
		st.Begin(c)
		if err := runValues(c); err != nil {
			if len(err.Error()) > 8 && err.Error()[:8] == "harness:" {
				t.Fatalf("%v", err)
			}
			st.Fail(c, err)
			t.Fatalf("%v", err)
		}
		var labels []string
		if life {
			labels = append(labels, "user-message-of-a-lifecycle-type")
		}
		st.Done(c, life && c.Chain > 0, labels...)
	})
}

func init() {
	vh.RegisterReplay("TestMessageValues", func(raw json.RawMessage) error {
		var c VCase
		if err := json.Unmarshal(raw, &c); err != nil {
			return err
		}
		return runValues(c)
	})
}
