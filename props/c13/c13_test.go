// C13: middleware wraps every delivery, in the configured order.
package c13

import (
	"testing"

	"pgregory.net/rapid"

	"verif/internal/life"
	"verif/internal/vh"
)

func TestMain(m *testing.M)   { vh.Main(m) }
func TestReplay(t *testing.T) { vh.Replay(t) }

var profile = life.Profile{
	MaxOps: 16, WSend: 6, WPanic: 4, WGate: 2, WRelease: 2, WPoison: 2, WStop: 2, WRespawn: 1, WBurst: 1,
	MaxChain: 4, MaxChildren: 0, Lifecycle: true, SpawnSends: true, MaxBudget: 3, Replies: true,
}

func TestMiddleware(t *testing.T) {
	st := vh.Test("TestMiddleware")
	rapid.Check(t, func(t *rapid.T) {
		spec, _ := life.Normalize(life.Gen(t, profile), false)
		chain := spec.Chain
		// non-trivial: chain length >= 2 and the history contains a crash
		life.Property(t, st, spec, false, life.CheckC13, func(f life.Features) bool { return chain >= 2 && f.Crashes > 0 })
	})
}

func init() {
	vh.RegisterReplay("TestMiddleware", life.Replayer(false, life.CheckC13))
}
