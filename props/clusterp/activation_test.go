// C19: cluster activations: unique, placed on a capable member, known everywhere.
//
// 1..4 real Clusters, each on its own engine, connected by an in-memory Remoter that
// round-trips every message through the proto serializer and pushes it straight into the
// destination engine.  Membership is driven by snapshots as in C18.  One driver goroutine
// executes the history; after every op the notifications are in the agents' FIFO inboxes
// before the views are read (quiescent histories).
package clusterp

import (
	"bytes"
	"encoding/json"
	"fmt"
	"sort"
	"strings"
	"sync"
	"testing"
	"time"

	"github.com/anthdm/hollywood/actor"
	"github.com/anthdm/hollywood/cluster"
	"github.com/anthdm/hollywood/remote"
	"pgregory.net/rapid"

	"verif/internal/vh"
)

type memNet struct {
	mu      sync.Mutex
	engines map[string]*actor.Engine
	down    map[string]bool
	// sent: what was handed to Send since the last check, with the bytes it serialised to at that
	// moment.  A real remote serialises LATER, on the stream writer's goroutine: a message that reads
	// differently by then was modified (or shares memory with something that was) after it was handed over.
	sent []sentRec
}

type sentRec struct {
	msg  any
	b    []byte
	to   string
	name string
}

func (n *memNet) handedOverIntact() error {
	n.mu.Lock()
	recs := n.sent
	n.sent = nil
	n.mu.Unlock()
	ser := remote.ProtoSerializer{}
	for _, r := range recs {
		b, err := ser.Serialize(r.msg)
		if err != nil || !bytes.Equal(b, r.b) {
			return fmt.Errorf("a %s handed to the remote for %s reads differently now than at the moment of the Send (%d bytes then, %d now, err=%v): the remote serialises a message after Send has returned, what the peer gets is not what was sent", r.name, r.to, len(r.b), len(b), err)
		}
	}
	return nil
}

type memRemote struct {
	addr string
	net  *memNet
}

func (r *memRemote) Address() string { return r.addr }
func (r *memRemote) Start(e *actor.Engine) error {
	r.net.mu.Lock()
	r.net.engines[r.addr] = e
	r.net.mu.Unlock()
	return nil
}
func (r *memRemote) Stop() *sync.WaitGroup { return &sync.WaitGroup{} }
func (r *memRemote) Send(pid *actor.PID, msg any, sender *actor.PID) {
	ser := remote.ProtoSerializer{}
	b, err := ser.Serialize(msg)
	if err != nil {
		return
	}
	m, err := ser.Deserialize(b, ser.TypeName(msg))
	if err != nil {
		return
	}
	r.net.mu.Lock()
	if len(r.net.sent) < 4096 {
		r.net.sent = append(r.net.sent, sentRec{msg, b, pid.String(), ser.TypeName(msg)})
	}
	e := r.net.engines[pid.Address]
	if r.net.down[pid.Address] || r.net.down[r.addr] {
		e = nil
	}
	r.net.mu.Unlock()
	if e != nil {
		e.SendLocal(pid.CloneVT(), m, sender.CloneVT())
	}
}

var nodeKinds = [][]string{{"player", "room"}, {"player"}, {"room", "npc"}, {}}
var actKinds = []string{"player", "room", "npc", "ghost"}

type AOp struct {
	K    string `json:"k"` // activate deactivate cspawn join leave
	Kind int    `json:"kind,omitempty"`
	ID   int    `json:"id,omitempty"`
	Via  int    `json:"via,omitempty"` // index into the joined nodes, modulo
	Sel  int    `json:"sel,omitempty"` // which of the capable members the select function returns (sorted by id, modulo)
	Node int    `json:"node,omitempty"`
	// swap: Node leaves and Node2 joins in one and the same snapshot
	Node2 int `json:"node2,omitempty"`
	// slowjoin: bit i set = the i-th current member hears of the join at once, otherwise only after
	// the activation in the middle of the op
	Mask int `json:"mask,omitempty"`
	// Twice: (deactivate) the same PID is deactivated a second time, through another member
	Twice bool `json:"twice,omitempty"`
	N     int  `json:"n,omitempty"` // bulk: number of actors
}

type ACase struct {
	Start []bool `json:"start"` // which of the 4 nodes form the initial cluster
	Ops   []AOp  `json:"ops"`
}

type marker struct{ ch chan struct{} }

type actWorld struct {
	mu      sync.Mutex
	spawns  []string // "node:kind/id" in order
	stopped map[string]chan struct{}
}

func (w *actWorld) producer(node int) actor.Producer {
	return func() actor.Receiver {
		var key string
		return recvFn(func(c *actor.Context) {
			switch m := c.Message().(type) {
			case actor.Started:
				key = fmt.Sprintf("%d:%s", node, c.PID().ID)
				w.mu.Lock()
				w.spawns = append(w.spawns, key)
				w.stopped[key] = make(chan struct{})
				w.mu.Unlock()
			case actor.Stopped:
				w.mu.Lock()
				close(w.stopped[key])
				w.mu.Unlock()
			case marker:
				close(m.ch)
			}
		})
	}
}

type recvFn func(*actor.Context)

func (r recvFn) Receive(c *actor.Context) { r(c) }

func runAct(c ACase) (map[string]int, error) {
	if len(c.Start) != 4 {
		return nil, nil
	}
	feat := map[string]int{}
	net := &memNet{engines: map[string]*actor.Engine{}, down: map[string]bool{}}
	w := &actWorld{stopped: map[string]chan struct{}{}}
	cls := make([]*cluster.Cluster, 4)
	addr := func(i int) string { return fmt.Sprintf("mem:%d", i) }
	for i := 0; i < 4; i++ {
		e, err := actor.NewEngine(actor.NewEngineConfig().WithRemote(&memRemote{addr: addr(i), net: net}))
		if err != nil {
			return nil, fmt.Errorf("harness: %v", err)
		}
		cl, err := cluster.New(cluster.NewConfig().WithID(fmt.Sprintf("n%d", i)).WithEngine(e).WithRequestTimeout(wait).
			WithProvider(func(*cluster.Cluster) actor.Producer { return func() actor.Receiver { return stubProvider{} } }))
		if err != nil {
			return nil, fmt.Errorf("harness: %v", err)
		}
		for _, k := range nodeKinds[i] {
			cl.RegisterKind(k, w.producer(i), cluster.NewKindConfig())
		}
		cl.Start()
		cls[i] = cl
	}
	joined := map[int]bool{}
	gone := map[int]bool{}
	joinedList := func() []int {
		var l []int
		for i := 0; i < 4; i++ {
			if joined[i] {
				l = append(l, i)
			}
		}
		return l
	}
	// push the current membership to every joined node and wait until each has processed it
	publish := func() error {
		var ms []*cluster.Member
		for _, i := range joinedList() {
			ms = append(ms, cls[i].Member())
		}
		for _, i := range joinedList() {
			cls[i].Engine().Send(cls[i].PID(), &cluster.Members{Members: ms})
		}
		for _, i := range joinedList() {
			// Members() is the barrier (a request through the agent's inbox, behind the snapshot).  What the
			// view then looks like is C18's business; this check judges the activations only.
			if got := cls[i].Members(); len(got) == 0 {
				return fmt.Errorf("%w: Members() on n%d returned nothing", errInconclusive, i)
			}
		}
		return nil
	}
	for i, on := range c.Start {
		joined[i] = on
	}
	if len(joinedList()) == 0 {
		return nil, nil
	}
	if err := publish(); err != nil {
		return nil, err
	}
	model := map[string]*actor.PID{} // "kind/id" -> PID
	nspawns := 0
	verify := func(what string) error {
		if err := net.handedOverIntact(); err != nil {
			return fmt.Errorf("%s: %v", what, err)
		}
		w.mu.Lock()
		ns := len(w.spawns)
		w.mu.Unlock()
		if ns != nspawns {
			return fmt.Errorf("%s: %d actors have been spawned by the kind producers so far, want %d (spawn log %v)", what, ns, nspawns, w.spawns)
		}
		for _, n := range joinedList() {
			for _, k := range append(append([]string{}, actKinds...), "free") {
				var want []string
				for id := 0; id < 3; id++ {
					key := k + "/" + idStr(id)
					got := cls[n].GetActiveByID(key)
					wp := model[key]
					if (got == nil) != (wp == nil) || (got != nil && !got.Equals(wp)) {
						return fmt.Errorf("%s: on n%d GetActiveByID(%q) = %v, want %v", what, n, key, got, wp)
					}
					if wp != nil {
						want = append(want, wp.String())
					}
				}
				if k == "free" {
					// the bulk population, if any: every entry resolves on this node
					nb := 0
					for bk, wp := range model {
						if !strings.HasPrefix(bk, "bulk/") {
							continue
						}
						nb++
						if got := cls[n].GetActiveByID(bk); got == nil || !got.Equals(wp) {
							return fmt.Errorf("%s: on n%d GetActiveByID(%q) = %v, want %v (one of the bulk actors)", what, n, bk, got, wp)
						}
					}
					if nb > 0 {
						if l := cls[n].GetActiveByKind("bulk"); len(l) != nb {
							return fmt.Errorf("%s: on n%d GetActiveByKind(\"bulk\") lists %d actors, %d are active", what, n, len(l), nb)
						}
					}
				}
				var gotL []string
				for _, p := range cls[n].GetActiveByKind(k) {
					if p != nil {
						gotL = append(gotL, p.String())
					}
				}
				sort.Strings(gotL)
				sort.Strings(want)
				if strings.Join(gotL, ",") != strings.Join(want, ",") {
					return fmt.Errorf("%s: on n%d GetActiveByKind(%q) = %v, want %v", what, n, k, gotL, want)
				}
			}
		}
		return nil
	}
	doActivate := func(what string, via int, kind string, id int, selIdx int, view []int) error {
		key := kind + "/" + idStr(id)
		var capable []int
		for _, i := range view {
			for _, k := range nodeKinds[i] {
				if k == kind {
					capable = append(capable, i)
				}
			}
		}
		chosen := ""
		called := 0
		sel := func(d cluster.ActivationDetails) *cluster.Member {
			called++
			ms := append([]*cluster.Member(nil), d.Members...)
			sort.Slice(ms, func(a, b int) bool { return ms[a].ID < ms[b].ID })
			if len(ms) == 0 {
				return nil
			}
			m := ms[((selIdx%len(ms))+len(ms))%len(ms)]
			chosen = m.ID
			return m
		}
		pid := cls[via].Activate(kind, cluster.NewActivationConfig().WithID(idStr(id)).WithSelectMemberFunc(sel))
		switch {
		case model[key] != nil:
			feat["activate-duplicate"]++
			if pid != nil {
				return fmt.Errorf("%s: the id is already active as %v, yet Activate returned %v", what, model[key], pid)
			}
		case len(capable) == 0:
			feat["activate-no-capable-member"]++
			if pid != nil {
				return fmt.Errorf("%s: no member advertises %q, yet Activate returned %v", what, kind, pid)
			}
		default:
			if pid == nil {
				return fmt.Errorf("%s: members %v advertise %q and the id is free, yet Activate returned nil (select function called %d times)", what, capable, kind, called)
			}
			want := capable[((selIdx%len(capable))+len(capable))%len(capable)]
			if chosen != fmt.Sprintf("n%d", want) {
				return fmt.Errorf("%s: the select function was offered a member list from which it chose %q; the capable members are %v (want n%d)", what, chosen, capable, want)
			}
			if pid.Address != addr(want) || pid.ID != key {
				return fmt.Errorf("%s: Activate returned %v, want %s/%s (the member the select function returned)", what, pid, addr(want), key)
			}
			nspawns++
			w.mu.Lock()
			last := ""
			if len(w.spawns) > 0 {
				last = w.spawns[len(w.spawns)-1]
			}
			w.mu.Unlock()
			if last != fmt.Sprintf("%d:%s", want, key) {
				return fmt.Errorf("%s: the actor was spawned as %q, want on node %d", what, last, want)
			}
			model[key] = pid
			if want != via {
				feat["remote-activation"]++
			} else {
				feat["local-activation"]++
			}
		}
		return nil
	}
	for oi, op := range c.Ops {
		jl := joinedList()
		via := jl[((op.Via%len(jl))+len(jl))%len(jl)]
		if op.Kind < 0 || op.Kind >= len(actKinds) || op.ID < 0 || op.ID > 2 || op.Node < 0 || op.Node > 3 {
			return nil, nil
		}
		kind := actKinds[op.Kind]
		key := kind + "/" + idStr(op.ID)
		what := fmt.Sprintf("op %d (%s %s via n%d)", oi, op.K, key, via)
		switch op.K {
		case "activate":
			if err := doActivate(what, via, kind, op.ID, op.Sel, jl); err != nil {
				return nil, err
			}
		case "deactivate":
			pid := model[key]
			if pid == nil {
				continue
			}
			// a plain local actor (not a cluster actor) on another member that happens to have the same
			// kind/id: the Deactivation names the PID of the host, it is none of this actor's business
			var twin *actor.PID
			twinNode := -1
			for _, n := range joinedList() {
				if addr(n) != pid.Address && op.Sel%2 == 0 {
					twinNode = n
					break
				}
			}
			if twinNode >= 0 {
				i := strings.Index(pid.ID, "/")
				twin = cls[twinNode].Engine().SpawnFunc(func(c *actor.Context) {
					if m, ok := c.Message().(marker); ok {
						close(m.ch)
					}
				}, pid.ID[:i], actor.WithID(pid.ID[i+1:]))
				if cls[twinNode].Engine().Registry.GetPID(pid.ID[:i], pid.ID[i+1:]) == nil {
					twin = nil
				}
			}
			cls[via].Deactivate(pid)
			cls[via].Members() // barrier: via's agent has broadcast the Deactivation
			host := -1
			fmt.Sscanf(pid.Address, "mem:%d", &host)
			if host >= 0 && !gone[host] {
				cls[host].Members() // the host's agent has handled it: the pill is in the actor's inbox
				hk := fmt.Sprintf("%d:%s", host, key)
				w.mu.Lock()
				stopped := w.stopped[hk]
				w.mu.Unlock()
				if stopped != nil { // nil for cluster-spawned actors of the harness
					// A graceful pill lets the actor drain the batch the pill was popped with, so one
					// message sent behind the pill may still be handled; a second one, sent after
					// the first was handled (that batch had been popped by then), never is.
					m1 := marker{make(chan struct{})}
					cls[host].Engine().Send(pid, m1)
					select {
					case <-stopped:
					case <-m1.ch:
						m2 := marker{make(chan struct{})}
						cls[host].Engine().Send(pid, m2)
						select {
						case <-stopped:
						case <-m2.ch:
							return nil, fmt.Errorf("%s: the actor %v keeps handling messages after its deactivation was processed by its host: it was not stopped", what, pid)
						case <-time.After(wait):
							return nil, fmt.Errorf("%w: deactivated actor neither stopped nor answered", errInconclusive)
						}
					case <-time.After(wait):
						return nil, fmt.Errorf("%w: deactivated actor neither stopped nor answered", errInconclusive)
					}
					// Stopped is handled after the actor is unregistered
				}
			}
			if twin != nil {
				cls[twinNode].Members() // the twin's node has handled the Deactivation
				m1 := marker{make(chan struct{})}
				cls[twinNode].Engine().Send(twin, m1)
				select {
				case <-m1.ch:
				case <-time.After(5 * time.Second):
					if cls[twinNode].Engine().Registry.GetPID(kindOfID(twin.ID), idOfID(twin.ID)) == nil {
						return nil, fmt.Errorf("%s: the deactivation of %v (hosted on %s) stopped a plain local actor with the same id on n%d", what, pid, pid.Address, twinNode)
					}
					return nil, fmt.Errorf("%w: the local twin did not answer", errInconclusive)
				}
				<-cls[twinNode].Engine().Poison(twin).Done()
				feat["local-namesake-on-another-member"]++
			}
			delete(model, key)
			feat["deactivate"]++
			if op.Twice {
				// a second Deactivate of the same PID (a retry, or another member's): a Deactivation for
				// an id nobody knows any more changes nothing - also not what a later Activate finds
				jl2 := joinedList()
				via2 := jl2[(op.Sel%len(jl2)+len(jl2))%len(jl2)]
				cls[via2].Deactivate(pid)
				for _, n := range jl2 {
					cls[n].Members()
				}
				feat["deactivate-repeated"]++
			}
		case "bulk":
			// more active actors than any batch size somebody might think of: 130..160 actors of their
			// own kind, spawned through one member; whoever joins later must learn every one of them
			if op.N < 1 || op.N > 200 || model["bulk/b0"] != nil {
				continue
			}
			for i := 0; i < op.N; i++ {
				bk := fmt.Sprintf("bulk/b%d", i)
				pid := cls[via].Spawn(func() actor.Receiver { return stubProvider{} }, "bulk", actor.WithID(fmt.Sprintf("b%d", i)))
				if pid == nil || pid.ID != bk {
					return nil, fmt.Errorf("%s: Cluster.Spawn returned %v", what, pid)
				}
				model[bk] = pid
			}
			for _, n := range joinedList() {
				cls[n].Members()
			}
			feat["more-than-128-active-actors"]++
		case "cspawn":
			key = "free/" + idStr(op.ID)
			if model[key] != nil {
				continue
			}
			pid := cls[via].Spawn(func() actor.Receiver { return stubProvider{} }, "free", actor.WithID(idStr(op.ID)))
			if pid == nil || pid.Address != addr(via) || pid.ID != key {
				return nil, fmt.Errorf("%s: Cluster.Spawn returned %v", what, pid)
			}
			model[key] = pid
			feat["cluster-spawn"]++
		case "join":
			if joined[op.Node] || gone[op.Node] {
				continue
			}
			joined[op.Node] = true
			if err := publish(); err != nil {
				return nil, err
			}
			feat["join"]++
			if len(model) > 0 {
				feat["join-with-active-actors"]++
			}
		case "leave":
			if !joined[op.Node] || len(jl) < 2 {
				continue
			}
			joined[op.Node] = false
			gone[op.Node] = true
			net.mu.Lock()
			net.down[addr(op.Node)] = true
			net.mu.Unlock()
			if err := publish(); err != nil {
				return nil, err
			}
			for k, p := range model {
				if p.Address == addr(op.Node) {
					delete(model, k)
					feat["leave-purges-activation"]++
				}
			}
			feat["leave"]++
		case "lagjoin":
			// A node joins and its own membership view lags behind: the others already list it (and have
			// sent it their actor topology), its own provider has only reported the node itself so far.
			// The ids it resolves are "known to the cluster" for it: activating one of them again must
			// return nil and spawn nothing.  Then the full snapshot arrives.
			if joined[op.Node] || gone[op.Node] {
				continue
			}
			x := op.Node
			joined[x] = true
			var full []*cluster.Member
			for _, i := range joinedList() {
				full = append(full, cls[i].Member())
			}
			cls[x].Engine().Send(cls[x].PID(), &cluster.Members{Members: []*cluster.Member{cls[x].Member()}})
			cls[x].Members()
			for _, i := range joinedList() {
				if i != x {
					cls[i].Engine().Send(cls[i].PID(), &cluster.Members{Members: full})
				}
			}
			for _, i := range joinedList() {
				if i != x {
					cls[i].Members() // they have processed the join: their topology is in x's inbox
				}
			}
			cls[x].Members() // ... and x has processed it
			probes := 0
			for id := 0; id < 3 && probes < 3; id++ {
				for _, k := range nodeKinds[x] {
					dk := k + "/" + idStr(id)
					if model[dk] == nil {
						continue
					}
					if got := cls[x].GetActiveByID(dk); got == nil || !got.Equals(model[dk]) {
						continue // x does not resolve it (yet): C19 says nothing about this attempt
					}
					probes++
					pid := cls[x].Activate(k, cluster.NewActivationConfig().WithID(idStr(id)))
					if pid != nil {
						return nil, fmt.Errorf("%s: n%d resolves %s to %v, yet Activate(%q, %d) on n%d (whose own member view still lists only itself) returned %v: a second actor with a cluster-wide id",
							what, x, dk, model[dk], k, id, x, pid)
					}
					feat["duplicate-attempt-from-a-lagging-joiner"]++
				}
			}
			cls[x].Engine().Send(cls[x].PID(), &cluster.Members{Members: full})
			cls[x].Members()
			for _, i := range joinedList() {
				cls[i].Members()
			}
			feat["join"]++
			feat["join-with-lagging-view"]++
		case "slowjoin":
			// A node joins and the news travels at different speeds: the joiner and SOME members learn it
			// now, the others later; in between one of the late ones activates an actor (it cannot tell the
			// joiner, whom it does not know yet).  When it finally learns of the joiner it hands over
			// everything it knows - that is how "a member that joins later learns all active actors".
			if joined[op.Node] || gone[op.Node] || len(jl) < 2 {
				continue
			}
			var early, late []int
			for bi, n := range jl {
				if op.Mask>>uint(bi)&1 == 1 {
					early = append(early, n)
				} else {
					late = append(late, n)
				}
			}
			if len(early) == 0 || len(late) == 0 {
				continue
			}
			x := op.Node
			joined[x] = true
			var full []*cluster.Member
			for _, i := range joinedList() {
				full = append(full, cls[i].Member())
			}
			for _, i := range append([]int{x}, early...) {
				cls[i].Engine().Send(cls[i].PID(), &cluster.Members{Members: full})
			}
			for _, i := range append([]int{x}, early...) {
				cls[i].Members()
			}
			cls[x].Members() // the early members' topologies have arrived at the joiner
			a := late[((op.Via%len(late))+len(late))%len(late)]
			if err := doActivate(fmt.Sprintf("op %d (slowjoin of n%d: %s activated via n%d, which has not heard of the joiner yet)", oi, x, key, a), a, kind, op.ID, op.Sel, jl); err != nil {
				return nil, err
			}
			for _, i := range jl {
				cls[i].Members() // the Activation broadcast has been processed by the members a knows
			}
			for _, i := range late {
				cls[i].Engine().Send(cls[i].PID(), &cluster.Members{Members: full})
			}
			for _, i := range joinedList() {
				cls[i].Members()
			}
			cls[x].Members()
			feat["join"]++
			feat["join-heard-late-by-some-members"]++
		case "swap":
			// one snapshot in which a member has left AND another has joined (what a polling provider
			// reports when both happened between two polls)
			if op.Node2 < 0 || op.Node2 > 3 {
				return nil, nil
			}
			if !joined[op.Node] || joined[op.Node2] || gone[op.Node2] || len(jl) < 2 {
				continue
			}
			joined[op.Node], gone[op.Node], joined[op.Node2] = false, true, true
			net.mu.Lock()
			net.down[addr(op.Node)] = true
			net.mu.Unlock()
			if err := publish(); err != nil {
				return nil, err
			}
			for k, p := range model {
				if p.Address == addr(op.Node) {
					delete(model, k)
					feat["leave-purges-activation"]++
					feat["swap-purges-activation"]++
				}
			}
			feat["leave"]++
			feat["join"]++
			feat["leave-and-join-in-one-snapshot"]++
		default:
			return nil, nil
		}
		if err := verify(what); err != nil {
			return nil, err
		}
	}
	if len(c.Start) > 0 && feat["remote-activation"] > 0 && (feat["leave"] > 0 || feat["deactivate"] > 0) {
		feat["nontrivial"]++
	}
	return feat, nil
}

func genAct(t *rapid.T) ACase {
	c := ACase{Start: []bool{true, rapid.Bool().Draw(t, "n1"), rapid.Bool().Draw(t, "n2"), rapid.Bool().Draw(t, "n3")}}
	if rapid.IntRange(0, 5).Draw(t, "no-n0") == 0 && (c.Start[1] || c.Start[2] || c.Start[3]) {
		c.Start[0] = false
	}
	n := rapid.IntRange(1, 14).Draw(t, "ops")
	for i := 0; i < n; i++ {
		op := AOp{K: rapid.SampledFrom([]string{"activate", "activate", "activate", "activate", "deactivate", "deactivate", "cspawn", "join", "lagjoin", "slowjoin", "leave", "swap"}).Draw(t, "k")}
		op.Via = rapid.IntRange(0, 3).Draw(t, "via")
		switch op.K {
		case "activate", "deactivate":
			op.Kind = rapid.SampledFrom([]int{0, 0, 1, 1, 2, 3}).Draw(t, "kind")
			op.ID = rapid.IntRange(0, 2).Draw(t, "id")
			op.Sel = rapid.IntRange(0, 3).Draw(t, "sel")
			if op.K == "deactivate" {
				op.Twice = rapid.Bool().Draw(t, "twice")
			}
		case "cspawn":
			op.ID = rapid.IntRange(0, 2).Draw(t, "id")
		case "join", "leave", "lagjoin":
			op.Node = rapid.IntRange(0, 3).Draw(t, "node")
		case "slowjoin":
			op.Node = rapid.IntRange(0, 3).Draw(t, "node")
			op.Mask = rapid.IntRange(1, 6).Draw(t, "mask")
			op.Kind = rapid.SampledFrom([]int{0, 0, 1, 1, 2}).Draw(t, "kind")
			op.ID = rapid.IntRange(0, 2).Draw(t, "id")
			op.Sel = rapid.IntRange(0, 3).Draw(t, "sel")
		case "swap":
			op.Node = rapid.IntRange(0, 3).Draw(t, "node")
			op.Node2 = rapid.IntRange(0, 3).Draw(t, "node2")
		}
		c.Ops = append(c.Ops, op)
	}
	// one case in six begins with an id that moves house: activated on one member, deactivated,
	// activated again on another member - and then the first member leaves (whatever a member
	// remembers about where an id once lived must not cost the id its new home)
	if rapid.IntRange(0, 5).Draw(t, "rehome") == 0 {
		c.Start = []bool{true, true, rapid.Bool().Draw(t, "rn2"), rapid.Bool().Draw(t, "rn3")}
		k, id := rapid.IntRange(0, 1).Draw(t, "rkind"), rapid.IntRange(0, 2).Draw(t, "rid")
		a, b := rapid.IntRange(0, 1).Draw(t, "rfirst"), 0
		b = 1 - a
		script := []AOp{
			{K: "activate", Kind: k, ID: id, Sel: a, Via: rapid.IntRange(0, 3).Draw(t, "rvia1")},
			{K: "deactivate", Kind: k, ID: id, Sel: 1, Via: rapid.IntRange(0, 3).Draw(t, "rvia2")},
			{K: "activate", Kind: k, ID: id, Sel: b, Via: rapid.IntRange(0, 3).Draw(t, "rvia3")},
			{K: "leave", Node: rapid.IntRange(0, 2).Draw(t, "rleave")},
		}
		c.Ops = append(script, c.Ops...)
	}
	// one case in ten: a bulk population early in the history
	if rapid.IntRange(0, 9).Draw(t, "bulkcase") == 0 {
		at := rapid.IntRange(0, min(2, len(c.Ops))).Draw(t, "bulkat")
		b := AOp{K: "bulk", N: rapid.IntRange(129, 160).Draw(t, "bulkn"), Via: rapid.IntRange(0, 3).Draw(t, "bulkvia")}
		c.Ops = append(c.Ops[:at:at], append([]AOp{b}, c.Ops[at:]...)...)
	}
	return c
}

func kindOfID(id string) string { return id[:strings.Index(id, "/")] }
func idOfID(id string) string   { return id[strings.Index(id, "/")+1:] }

// idStr: the three ids of the population; one of them contains the separator that joins kind and id
// (ids are free-form strings: "lobby/7" is as good an id as "7")
func idStr(id int) string { return [...]string{"0", "1", "lobby/7"}[((id%3)+3)%3] }

func TestActivations(t *testing.T) {
	st := vh.Test("TestActivations")
	rapid.Check(t, func(t *rapid.T) {
		c := genAct(t)
		check(t, st, c, func() (map[string]int, error) { return runAct(c) }, func(f map[string]int) bool { return f["nontrivial"] > 0 })
	})
}

func init() {
	vh.RegisterReplay("TestActivations", func(raw json.RawMessage) error {
		var c ACase
		if err := json.Unmarshal(raw, &c); err != nil {
			return err
		}
		_, err := runAct(c)
		return err
	})
}
