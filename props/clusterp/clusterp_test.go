// C18: the cluster membership view follows the provider's snapshots exactly.
// C20: the self-managed provider keeps a correct member list through joins and failures.
package clusterp

import (
	"encoding/json"
	"errors"
	"fmt"
	"sort"
	"strings"
	"sync"
	"testing"
	"time"

	"github.com/anthdm/hollywood/actor"
	"github.com/anthdm/hollywood/cluster"
	"pgregory.net/rapid"

	"verif/internal/vh"
)

func TestMain(m *testing.M)   { vh.Main(m) }
func TestReplay(t *testing.T) { vh.Replay(t) }

var errInconclusive = errors.New("harness: bounded wait expired")

const wait = 30 * time.Second

// sinkRemote gives the engine a host:port address; whatever is sent to another node is dropped.
type sinkRemote struct{ addr string }

func (r sinkRemote) Address() string                  { return r.addr }
func (r sinkRemote) Start(*actor.Engine) error        { return nil }
func (r sinkRemote) Stop() *sync.WaitGroup            { return &sync.WaitGroup{} }
func (r sinkRemote) Send(*actor.PID, any, *actor.PID) {}

type stubProvider struct{}

func (stubProvider) Receive(*actor.Context) {}

// universe of members: fixed attributes per ID (every provider guarantees that)
var kindsOf = [][]string{
	{"player", "room"}, // self
	{"player"}, {"room", "npc"}, {}, {"npc"}, {"bank", "player"}, {"room"},
	{"ghost"}, // member 7 has an id with a comma in it: "m1,m2" (ids are free-form strings)
}

var allKinds = []string{"player", "room", "npc", "bank", "ghost"}

func member(i int) *cluster.Member {
	if i >= 1000 { // bulk members of the C20 harness
		return &cluster.Member{ID: fmt.Sprintf("b%03d", i-1000), Host: fmt.Sprintf("127.0.0.1:%d", 6000+i-1000), Region: "default"}
	}
	if i == 0 {
		return &cluster.Member{ID: "self", Host: "127.0.0.1:4000", Region: "default", Kinds: kindsOf[0]}
	}
	id := fmt.Sprintf("m%d", i)
	if i == 7 {
		id = "m1,m2"
	}
	return &cluster.Member{ID: id, Host: fmt.Sprintf("127.0.0.1:%d", 4000+i), Region: "default", Kinds: kindsOf[i]}
}

// monitor: an actor that logs the cluster events it sees.
type monitor struct {
	mu    sync.Mutex
	cond  *sync.Cond
	log   []string
	sents int
}

type sentinel struct{ N int }

func (m *monitor) receive(c *actor.Context) {
	m.mu.Lock()
	defer m.mu.Unlock()
	switch ev := c.Message().(type) {
	case cluster.MemberJoinEvent:
		m.log = append(m.log, "join:"+ev.Member.ID)
	case cluster.MemberLeaveEvent:
		m.log = append(m.log, "leave:"+ev.Member.ID)
	case actor.ActorRestartedEvent:
		m.log = append(m.log, "restarted:"+ev.PID.GetID())
	case sentinel:
		m.sents = ev.N
		m.cond.Broadcast()
	}
}

func (m *monitor) barrier(e *actor.Engine, n int) ([]string, error) {
	e.BroadcastEvent(sentinel{n})
	tm := time.AfterFunc(wait, func() { m.mu.Lock(); m.cond.Broadcast(); m.mu.Unlock() })
	defer tm.Stop()
	deadline := time.Now().Add(wait)
	m.mu.Lock()
	defer m.mu.Unlock()
	for m.sents < n {
		if time.Now().After(deadline) {
			return nil, fmt.Errorf("%w: monitor never saw sentinel %d", errInconclusive, n)
		}
		m.cond.Wait()
	}
	out := m.log
	m.log = nil
	return out, nil
}

func ids(ms []*cluster.Member) []string {
	out := []string{}
	for _, m := range ms {
		if m == nil {
			out = append(out, "<nil>")
			continue
		}
		out = append(out, m.ID)
	}
	sort.Strings(out)
	return out
}

func setIDs(s map[int]bool) []string {
	out := []string{}
	for i := range s {
		out = append(out, member(i).ID)
	}
	sort.Strings(out)
	return out
}

func eq(a, b []string) bool { return strings.Join(a, ",") == strings.Join(b, ",") && len(a) == len(b) }

// ---- C18 --------------------------------------------------------------------------

type ViewCase struct {
	Snaps  [][]int `json:"snaps"` // member indices 1..6; self (0) is added by the harness at a generated position
	SelfAt []int   `json:"self_at"`
	// Activated: after the first snapshot the node activates an actor of one of its own kinds: the view
	// and its events do not depend on whether the agent knows active actors
	Activated bool `json:"activated,omitempty"`
}

func runView(c ViewCase) (feat map[string]int, err error) {
	feat = map[string]int{}
	e, err := actor.NewEngine(actor.NewEngineConfig().WithRemote(sinkRemote{"127.0.0.1:4000"}))
	if err != nil {
		return nil, fmt.Errorf("harness: %v", err)
	}
	cl, err := cluster.New(cluster.NewConfig().WithID("self").WithEngine(e).WithRequestTimeout(wait).
		WithProvider(func(*cluster.Cluster) actor.Producer { return func() actor.Receiver { return stubProvider{} } }))
	if err != nil {
		return nil, fmt.Errorf("harness: %v", err)
	}
	for _, k := range kindsOf[0] {
		cl.RegisterKind(k, func() actor.Receiver { return stubProvider{} }, cluster.NewKindConfig())
	}
	mon := &monitor{}
	mon.cond = sync.NewCond(&mon.mu)
	mpid := e.SpawnFunc(mon.receive, "monitor")
	e.Subscribe(mpid)
	cl.Start()
	view := map[int]bool{}
	for si, snap := range c.Snaps {
		var ms []*cluster.Member
		next := map[int]bool{0: true}
		dup := false
		nshared := 0
		for _, v := range snap {
			// entries >= 100 name the same member ID reported from another host (the node moved, or the
			// provider corrected its address): the view is BY MEMBER ID, so this is a member that stayed
			// entries >= 200: the member is reported behind an address it shares with other members
			// (a node that came back under a new ID while its old entry is still listed, several nodes
			// behind one advertised address): different IDs, one host - still different members
			i, moved, shared := v%100, v >= 100 && v < 200, v >= 200
			if i < 1 || i >= len(kindsOf) || v < 0 || v >= 300 {
				return nil, nil
			}
			if next[i] {
				dup = true
			}
			next[i] = true
			m := member(i)
			if moved {
				m.Host = fmt.Sprintf("127.0.0.1:%d", 5000+i)
				feat["member-reported-with-another-host"]++
			}
			if shared {
				m.Host = "127.0.0.1:7000"
				nshared++
			}
			ms = append(ms, m)
		}
		at := 0
		if si < len(c.SelfAt) {
			at = c.SelfAt[si]
		}
		if at < 0 || at > len(ms) {
			at = len(ms)
		}
		if nshared >= 2 {
			feat["members-with-different-ids-behind-one-host"]++
		}
		ms = append(ms[:at:at], append([]*cluster.Member{member(0)}, ms[at:]...)...)
		e.Send(cl.PID(), &cluster.Members{Members: ms})
		got := cl.Members() // a request through the agent's FIFO inbox: the snapshot was processed
		if len(got) == 0 {
			return nil, fmt.Errorf("%w: Members() returned nothing (request timed out?)", errInconclusive)
		}
		if g, w := ids(got), setIDs(next); !eq(g, w) {
			return nil, fmt.Errorf("snapshot %d %v: Members() = %v, want %v", si, ids(ms), g, w)
		}
		evs, err := mon.barrier(e, si+1)
		if err != nil {
			return nil, err
		}
		var wantEv []string
		added, removed := 0, 0
		for i := range next {
			if !view[i] {
				wantEv = append(wantEv, "join:"+member(i).ID)
				added++
			}
		}
		for i := range view {
			if !next[i] {
				wantEv = append(wantEv, "leave:"+member(i).ID)
				removed++
			}
		}
		sort.Strings(wantEv)
		gotEv := append([]string(nil), evs...)
		sort.Strings(gotEv)
		if !eq(gotEv, wantEv) {
			return nil, fmt.Errorf("snapshot %d %v on view %v: events %v, want exactly %v", si, ids(ms), setIDs(view), evs, wantEv)
		}
		for _, k := range allKinds {
			want := false
			for i := range next {
				for _, mk := range kindsOf[i] {
					if mk == k {
						want = true
					}
				}
			}
			if g := cl.HasKind(k); g != want {
				return nil, fmt.Errorf("snapshot %d: view %v: HasKind(%q) = %v, want %v", si, setIDs(next), k, g, want)
			}
		}
		if si == 0 && c.Activated {
			onSelf := func(d cluster.ActivationDetails) *cluster.Member {
				for _, m := range d.Members {
					if m.ID == "self" {
						return m
					}
				}
				return nil
			}
			if pid := cl.Activate(kindsOf[0][0], cluster.NewActivationConfig().WithID("a1").WithSelectMemberFunc(onSelf)); pid == nil {
				return nil, fmt.Errorf("harness: the node could not activate an actor of its own kind %q", kindsOf[0][0])
			}
			feat["agent-knows-an-active-actor"]++
		}
		if added > 0 && removed > 0 {
			feat["adds-and-removes"]++
		}
		if dup {
			feat["duplicate-entries"]++
		}
		if added == 0 && removed == 0 {
			feat["repeated-view"]++
		}
		if removed > 0 {
			feat["shrinks"]++
		}
		view = next
	}
	return feat, nil
}

func TestMembershipView(t *testing.T) {
	st := vh.Test("TestMembershipView")
	rapid.Check(t, func(t *rapid.T) {
		c := ViewCase{}
		n := rapid.IntRange(1, 8).Draw(t, "snaps")
		for i := 0; i < n; i++ {
			c.Snaps = append(c.Snaps, rapid.SliceOfN(rapid.Custom(func(t *rapid.T) int {
				v := rapid.IntRange(1, len(kindsOf)-1).Draw(t, "member")
				switch rapid.IntRange(0, 7).Draw(t, "moved") {
				case 0:
					v += 100
				case 1, 2:
					v += 200
				}
				return v
			}), 0, 8).Draw(t, "snap"))
			c.SelfAt = append(c.SelfAt, rapid.IntRange(0, 8).Draw(t, "selfat"))
		}
		c.Activated = rapid.Bool().Draw(t, "activated")
		check(t, st, c, func() (map[string]int, error) { return runView(c) }, func(f map[string]int) bool {
			return f["adds-and-removes"] > 0 || f["duplicate-entries"] > 0
		})
	})
}

func check(t *rapid.T, st *vh.T, c any, run func() (map[string]int, error), nt func(map[string]int) bool) {
	st.Begin(c)
	feat, err := run()
	if errors.Is(err, errInconclusive) || (err != nil && strings.HasPrefix(err.Error(), "harness: ")) {
		if st.Failed() > 0 {
			return
		}
		t.Fatalf("harness: %v", err)
	}
	if err != nil {
		st.Fail(c, err)
		t.Fatalf("%v", err)
	}
	var labels []string
	for k := range feat {
		labels = append(labels, k)
	}
	st.Done(c, nt(feat), labels...)
}

// ---- C20 --------------------------------------------------------------------------

type POp struct {
	K  string `json:"k"`            // handshake members unreachable
	M  int    `json:"m,omitempty"`  // member index (handshake; unreachable of that member's host)
	Ms []int  `json:"ms,omitempty"` // members list
	A  string `json:"a,omitempty"`  // unreachable: a non-member address
	// Alt: (handshake) the member comes from its alternative host - only taken when it is not a member at
	// that moment; (unreachable) the report names the member's alternative host
	Alt bool `json:"alt,omitempty"`
	// N: (bulk) a members list with N further members b000..b(N-1), more than fit one reply chunk
	N int `json:"n,omitempty"`
}

type ProvCase struct {
	Ops []POp `json:"ops"`
}

// agentProc records synchronously what the provider reports to its agent.
type agentProc struct {
	pid  *actor.PID
	mu   *sync.Mutex
	last *[]string
	n    *int
	keep *[]keptList
}

// keptList: a member list as somebody received it, with what it said at that moment.  What the
// provider has sent is the receiver's: it must read the same for ever (a remote serialises it
// later, an agent keeps it).
type keptList struct {
	msg  *cluster.Members
	then []string
	who  string
}

func checkKept(l []keptList) error {
	for _, k := range l {
		if now := ids(k.msg.Members); !eq(now, k.then) {
			return fmt.Errorf("a member list that the provider sent to %s said %v when it arrived and says %v now: the provider went on writing to a list it had handed over", k.who, k.then, now)
		}
	}
	return nil
}

func (a agentProc) Start()                  {}
func (a agentProc) PID() *actor.PID         { return a.pid }
func (a agentProc) Invoke([]actor.Envelope) {}
func (a agentProc) Shutdown()               {}
func (a agentProc) Send(_ *actor.PID, msg any, _ *actor.PID) {
	if m, ok := msg.(*cluster.Members); ok {
		a.mu.Lock()
		*a.last = ids(m.Members)
		*a.n++
		if a.keep != nil {
			*a.keep = append(*a.keep, keptList{m, ids(m.Members), "its agent"})
		}
		a.mu.Unlock()
	}
}

// provGate keeps the provider busy (inside its middleware) until rel is closed.
type provGate struct{ in, rel chan struct{} }

type provHarness struct {
	mu       sync.Mutex
	cond     *sync.Cond
	handled  map[string]int // message type -> how many the provider has finished handling
	replies  [][]string
	agentN   int
	agentGot []string
	kept     []keptList
}

func (h *provHarness) waitHandled(typ string, n int) error {
	tm := time.AfterFunc(wait, func() { h.mu.Lock(); h.cond.Broadcast(); h.mu.Unlock() })
	defer tm.Stop()
	deadline := time.Now().Add(wait)
	h.mu.Lock()
	defer h.mu.Unlock()
	for h.handled[typ] < n {
		if time.Now().After(deadline) {
			return fmt.Errorf("%w: provider never finished handling %s #%d", errInconclusive, typ, n)
		}
		h.cond.Wait()
	}
	return nil
}

func runProv(c ProvCase) (feat map[string]int, err error) {
	feat = map[string]int{}
	e, err := actor.NewEngine(actor.NewEngineConfig().WithRemote(sinkRemote{"127.0.0.1:4000"}))
	if err != nil {
		return nil, fmt.Errorf("harness: %v", err)
	}
	cl, err := cluster.New(cluster.NewConfig().WithID("self").WithEngine(e).WithRequestTimeout(wait))
	if err != nil {
		return nil, fmt.Errorf("harness: %v", err)
	}
	for _, k := range kindsOf[0] {
		cl.RegisterKind(k, func() actor.Receiver { return stubProvider{} }, cluster.NewKindConfig())
	}
	h := &provHarness{handled: map[string]int{}}
	h.cond = sync.NewCond(&h.mu)
	mon := &monitor{}
	mon.cond = sync.NewCond(&mon.mu)
	e.Subscribe(e.SpawnFunc(mon.receive, "monitor"))
	agent := e.SpawnProc(agentProc{pid: actor.NewPID(e.Address(), "cluster/self"), mu: &h.mu, last: &h.agentGot, n: &h.agentN, keep: &h.kept})
	// a probe actor takes the provider's replies to handshakes
	probe := e.SpawnFunc(func(c *actor.Context) {
		if m, ok := c.Message().(*cluster.Members); ok {
			h.mu.Lock()
			h.replies = append(h.replies, ids(m.Members))
			h.kept = append(h.kept, keptList{m, ids(m.Members), "a peer in answer to its handshake"})
			h.cond.Broadcast()
			h.mu.Unlock()
		}
	}, "probe")
	// middleware: tells the harness when the provider has finished handling a message
	mw := func(next actor.ReceiveFunc) actor.ReceiveFunc {
		return func(c *actor.Context) {
			typ := fmt.Sprintf("%T", c.Message())
			if g, ok := c.Message().(provGate); ok {
				close(g.in)
				<-g.rel
			}
			defer func() {
				h.mu.Lock()
				h.handled[typ]++
				h.cond.Broadcast()
				h.mu.Unlock()
			}()
			next(c)
		}
	}
	cluster.VerifEventChildHandled = func(msg any) {
		h.mu.Lock()
		h.handled["child:"+fmt.Sprintf("%T", msg)]++
		h.cond.Broadcast()
		h.mu.Unlock()
	}
	prov := cluster.VerifStartProvider(cl, agent, actor.WithMiddleware(mw), actor.WithRestartDelay(0))
	model := map[int]bool{0: true}
	hs, ml, leaves := 0, 0, 0
	handshake := func(m *cluster.Member) ([]string, error) {
		hs++
		e.SendWithSender(prov, &cluster.Handshake{Member: m}, probe)
		if err := h.waitHandled("*cluster.Handshake", hs); err != nil {
			return nil, err
		}
		tm := time.AfterFunc(wait, func() { h.mu.Lock(); h.cond.Broadcast(); h.mu.Unlock() })
		defer tm.Stop()
		deadline := time.Now().Add(wait)
		h.mu.Lock()
		defer h.mu.Unlock()
		for len(h.replies) < hs {
			if time.Now().After(deadline) {
				// the provider finished handling the handshake and its reply (a local send) never came
				return nil, fmt.Errorf("handshake %d from %s was handled but never answered with the member list", hs, m.ID)
			}
			h.cond.Wait()
		}
		return h.replies[hs-1], nil
	}
	agentSaw := func() (int, []string) {
		h.mu.Lock()
		defer h.mu.Unlock()
		return h.agentN, h.agentGot
	}
	removedOnce := map[int]bool{}
	hostOf := map[int]string{0: member(0).Host}
	altHost := func(i int) string { return fmt.Sprintf("127.0.0.1:%d", 5000+i) }
	for oi, op := range c.Ops {
		h.mu.Lock()
		kerr := checkKept(h.kept)
		h.mu.Unlock()
		if kerr != nil {
			return nil, fmt.Errorf("before op %d: %v", oi, kerr)
		}
		before, _ := agentSaw()
		told := true
		switch op.K {
		case "handshake":
			if op.M < 1 || op.M >= len(kindsOf) {
				return nil, nil
			}
			if removedOnce[op.M] && !model[op.M] {
				feat["re-adds-a-removed-member"]++
			}
			hm := member(op.M)
			if op.Alt && !model[op.M] {
				hm.Host = altHost(op.M)
				feat["member-rejoins-from-another-address"]++
			} else if model[op.M] {
				hm.Host = hostOf[op.M] // a member that is in the list keeps the address it has there
			}
			hostOf[op.M] = hm.Host
			model[op.M] = true
			reply, err := handshake(hm)
			if err != nil {
				return nil, err
			}
			if w := setIDs(model); !eq(reply, w) {
				return nil, fmt.Errorf("op %d: handshake from %s answered with %v, want the complete member list %v", oi, member(op.M).ID, reply, w)
			}
		case "members":
			var ms []*cluster.Member
			for _, i := range op.Ms {
				if i < 0 || i >= len(kindsOf) {
					return nil, nil
				}
				if removedOnce[i] && !model[i] {
					feat["re-adds-a-removed-member"]++
				}
				mm := member(i)
				if model[i] {
					mm.Host = hostOf[i]
				}
				hostOf[i] = mm.Host
				model[i] = true
				ms = append(ms, mm)
			}
			ml++
			e.Send(prov, &cluster.Members{Members: ms})
			if err := h.waitHandled("*cluster.Members", ml); err != nil {
				return nil, err
			}
		case "bulk":
			if op.N < 1 || op.N > 120 {
				return nil, nil
			}
			var ms []*cluster.Member
			for k := 0; k < op.N; k++ {
				model[1000+k] = true
				hostOf[1000+k] = member(1000 + k).Host
				ms = append(ms, member(1000+k))
			}
			ml++
			e.Send(prov, &cluster.Members{Members: ms})
			if err := h.waitHandled("*cluster.Members", ml); err != nil {
				return nil, err
			}
			if len(model) > 32 {
				feat["more-than-32-members"]++
			}
		case "racejoin":
			// the provider is busy; a peer's handshake is waiting in its inbox; the peer's address is
			// reported unreachable.  In the order of arrival: added, then removed.
			if op.M < 1 || op.M >= len(kindsOf) {
				return nil, nil
			}
			g := provGate{make(chan struct{}), make(chan struct{})}
			e.Send(prov, g)
			select {
			case <-g.in:
			case <-time.After(wait):
				return nil, fmt.Errorf("%w: the provider never reached the gate", errInconclusive)
			}
			hm := member(op.M)
			if model[op.M] {
				hm.Host = hostOf[op.M]
			}
			hostOf[op.M] = hm.Host
			hs++
			e.SendWithSender(prov, &cluster.Handshake{Member: hm}, probe)
			leaves++
			e.BroadcastEvent(actor.RemoteUnreachableEvent{ListenAddr: hm.Host})
			if err := h.waitHandled("child:actor.RemoteUnreachableEvent", leaves); err != nil {
				close(g.rel)
				return nil, err
			}
			close(g.rel)
			if err := h.waitHandled("*cluster.Handshake", hs); err != nil {
				return nil, err
			}
			for i := range model {
				if i != 0 && hostOf[i] == hm.Host {
					delete(model, i)
					removedOnce[i] = true
				}
			}
			delete(model, op.M)
			removedOnce[op.M] = true
			feat["unreachable-report-while-the-handshake-waits-in-the-inbox"]++
		case "unreachable":
			addr := op.A
			if op.M > 0 {
				if op.M >= len(kindsOf) {
					return nil, nil
				}
				addr = member(op.M).Host
				if op.Alt {
					addr = altHost(op.M)
				}
			}
			if addr == "" || addr == member(0).Host {
				return nil, nil
			}
			isMember := false
			for i := range model {
				if hostOf[i] == addr {
					isMember = true
					delete(model, i)
					removedOnce[i] = true
				}
			}
			if isMember {
				feat["unreachable-member"]++
			} else {
				feat["unreachable-non-member"]++
				told = false
			}
			leaves++
			// the public route: the event stream feeds the provider's event child
			e.BroadcastEvent(actor.RemoteUnreachableEvent{ListenAddr: addr})
			// barrier: the provider's event child has handled the report; whatever it sent to the provider
			// is in the provider's inbox now, ahead of the read-back handshake below
			if err := h.waitHandled("child:actor.RemoteUnreachableEvent", leaves); err != nil {
				return nil, err
			}
		default:
			return nil, nil
		}
		// read the provider's list back: a handshake from this node itself changes nothing (and it is
		// queued behind everything the op put into the provider's inbox)
		list, err := handshake(member(0))
		if err != nil {
			return nil, err
		}
		after, got := agentSaw()
		if told {
			if after == before {
				return nil, fmt.Errorf("op %d (%s): the provider did not report its member list to the agent", oi, op.K)
			}
			if w := setIDs(model); !eq(got, w) {
				return nil, fmt.Errorf("op %d (%s): the agent was told %v, want %v", oi, op.K, got, w)
			}
		}
		if w := setIDs(model); !eq(list, w) {
			return nil, fmt.Errorf("op %d (%s %d %v %q): the provider's member list is %v, want %v", oi, op.K, op.M, op.Ms, op.A, list, w)
		}
		evs, err := mon.barrier(e, oi+1)
		if err != nil {
			return nil, err
		}
		for _, ev := range evs {
			if strings.HasPrefix(ev, "restarted:provider/") {
				return nil, fmt.Errorf("op %d (%s %d %v %q): the provider crashed and was restarted", oi, op.K, op.M, op.Ms, op.A)
			}
		}
	}
	<-e.Poison(prov).Done()
	h.mu.Lock()
	kerr := checkKept(h.kept)
	h.mu.Unlock()
	if kerr != nil {
		return nil, fmt.Errorf("at the end of the history: %v", kerr)
	}
	return feat, nil
}

func TestProvider(t *testing.T) {
	st := vh.Test("TestProvider")
	rapid.Check(t, func(t *rapid.T) {
		c := ProvCase{}
		n := rapid.IntRange(1, 12).Draw(t, "ops")
		for i := 0; i < n; i++ {
			op := POp{K: rapid.SampledFrom([]string{"handshake", "handshake", "handshake", "members", "members", "unreachable", "unreachable", "unreachable", "bulk", "racejoin"}).Draw(t, "k")}
			switch op.K {
			case "racejoin":
				op.M = rapid.IntRange(1, len(kindsOf)-1).Draw(t, "m")
			case "bulk":
				op.N = rapid.SampledFrom([]int{3, 31, 33, 40, 64, 75}).Draw(t, "n")
			case "handshake":
				op.M = rapid.IntRange(1, len(kindsOf)-1).Draw(t, "m")
				op.Alt = rapid.IntRange(0, 2).Draw(t, "alt") == 0
			case "members":
				op.Ms = rapid.SliceOfN(rapid.IntRange(0, len(kindsOf)-1), 0, 6).Draw(t, "ms")
			case "unreachable":
				if rapid.IntRange(0, 2).Draw(t, "nonmember") == 0 {
					op.A = rapid.SampledFrom([]string{"127.0.0.1:9", "10.0.0.1:4001", "nowhere", "127.0.0.1:40000"}).Draw(t, "a")
				} else {
					op.M = rapid.IntRange(1, len(kindsOf)-1).Draw(t, "m") // its host; a member or not, depending on the history
					op.Alt = rapid.IntRange(0, 2).Draw(t, "alt") == 0
				}
			}
			c.Ops = append(c.Ops, op)
		}
		check(t, st, c, func() (map[string]int, error) { return runProv(c) }, func(f map[string]int) bool {
			return f["unreachable-non-member"] > 0 || f["re-adds-a-removed-member"] > 0
		})
	})
}

func init() {
	vh.RegisterReplay("TestMembershipView", func(raw json.RawMessage) error {
		var c ViewCase
		if err := json.Unmarshal(raw, &c); err != nil {
			return err
		}
		_, err := runView(c)
		return err
	})
	vh.RegisterReplay("TestProvider", func(raw json.RawMessage) error {
		var c ProvCase
		if err := json.Unmarshal(raw, &c); err != nil {
			return err
		}
		_, err := runProv(c)
		return err
	})
}
