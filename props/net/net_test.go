// C17: remote sends arrive once and in order; unreachable peers are reported.
//
// Real engines with real remotes over loopback TCP.
package net

import (
	"context"
	"crypto/tls"
	"encoding/json"
	"errors"
	"fmt"
	"io"
	"log/slog"
	stdnet "net"
	"os"
	"strings"
	"sync"
	"sync/atomic"
	"syscall"
	"testing"
	"time"

	"github.com/anthdm/hollywood/actor"
	"github.com/anthdm/hollywood/remote"
	"pgregory.net/rapid"

	"verif/internal/vh"
)

func TestMain(m *testing.M)   { vh.Main(m) }
func TestReplay(t *testing.T) { vh.Replay(t) }

var errInconclusive = errors.New("harness: bounded wait expired")

const wait = 30 * time.Second

// Ports come from a block that belongs to this process, below the kernel's ephemeral range:
// 10000 + (pid mod 110)*200 + k.  Nothing else on the box hands these out, so a port that one
// of our remotes has just released is not taken by somebody else before the check dials it,
// and an address nobody listens on stays that way.  Inside the process an address that was
// handed out stays owned until it is given back (a peer that is stopped and restarted on
// the same address keeps it in between).
var (
	portCounter atomic.Int64
	ownedMu     sync.Mutex
	owned       = map[string]bool{}
)

func nextPort() int {
	return 10000 + (os.Getpid()%110)*200 + int(portCounter.Add(1)%200)
}

func freeAddr() (string, error) {
	var last error
	for try := 0; try < 200; try++ {
		a := fmt.Sprintf("127.0.0.1:%d", nextPort())
		ownedMu.Lock()
		taken := owned[a]
		ownedMu.Unlock()
		if taken {
			continue
		}
		l, err := stdnet.Listen("tcp", a)
		if err != nil {
			last = err
			continue
		}
		l.Close()
		return a, nil
	}
	if last == nil {
		last = errors.New("no free port in this process's block")
	}
	return "", last
}

func own(a string, on bool) {
	a = strings.Replace(a, "localhost:", "127.0.0.1:", 1)
	ownedMu.Lock()
	if on {
		owned[a] = true
	} else {
		delete(owned, a)
	}
	ownedMu.Unlock()
}

// reserve binds a TCP socket to a free loopback port without listening on it: connection
// attempts are refused, no other process can take the port (and the kernel will not hand it
// out as the source port of an outgoing connection, which on loopback could connect a dialer
// to itself).  release frees it for the peer that is started later.
func reserve() (addr string, release func(), err error) {
	fd, err := syscall.Socket(syscall.AF_INET, syscall.SOCK_STREAM, 0)
	if err != nil {
		return "", nil, err
	}
	for try := 0; ; try++ {
		err = syscall.Bind(fd, &syscall.SockaddrInet4{Port: nextPort(), Addr: [4]byte{127, 0, 0, 1}})
		if err == nil {
			break
		}
		if try >= 50 {
			syscall.Close(fd)
			return "", nil, err
		}
	}
	sa, err := syscall.Getsockname(fd)
	if err != nil {
		syscall.Close(fd)
		return "", nil, err
	}
	in4, ok := sa.(*syscall.SockaddrInet4)
	if !ok {
		syscall.Close(fd)
		return "", nil, fmt.Errorf("unexpected socket address %T", sa)
	}
	var once sync.Once
	return fmt.Sprintf("127.0.0.1:%d", in4.Port), func() { once.Do(func() { syscall.Close(fd) }) }, nil
}

func node(addr string) (*actor.Engine, *remote.Remote, string, error) { return nodeCfg(addr, false) }

func nodeCfg(addr string, useTLS bool) (*actor.Engine, *remote.Remote, string, error) {
	var last error
	cfg := remote.NewConfig()
	if useTLS {
		tc, err := sharedTLS()
		if err != nil {
			return nil, nil, "", fmt.Errorf("harness: TLS material: %v", err)
		}
		cfg = cfg.WithTLS(tc)
	}
	for try := 0; try < 5; try++ {
		a := addr
		if a == "" {
			var err error
			if a, err = freeAddr(); err != nil {
				last = err
				continue
			}
		}
		r := remote.New(a, cfg)
		e, err := actor.NewEngine(actor.NewEngineConfig().WithRemote(r))
		if err == nil {
			return e, r, a, nil
		}
		last = err
		if addr != "" {
			time.Sleep(50 * time.Millisecond)
		}
	}
	return nil, nil, "", fmt.Errorf("harness: cannot start a node: %v", last)
}

// ---- connected flows -------------------------------------------------------------------

type Step struct {
	T   int  `json:"t"`             // target index; targets 0..TB-1 live on node B, the rest on node C
	Req bool `json:"req,omitempty"` // a Request instead of a Send
	// Bad: just before this step the sender hands the same target something that cannot be serialised
	// (1 = a plain Go string, 2 = a protobuf message with invalid UTF-8); it is dropped on its own
	Bad int `json:"bad,omitempty"`
	// Big: the payload is padded to 300 KiB.  At most 10 steps of a case are big (3 MB, below the
	// 4 MB the reading side buffers by default); the first steps of every sender queue up while the
	// connection is being made and leave as one batch.
	Big bool `json:"big,omitempty"`
}

var bigPad = " " + strings.Repeat("x", 300*1024)

type FCase struct {
	TB      int      `json:"tb"`            // targets on node B
	TC      int      `json:"tc"`            // targets on node C (0 = no third node)
	Scripts [][]Step `json:"scripts"`       // one per sender goroutine on node A
	TLS     bool     `json:"tls,omitempty"` // every node is configured WithTLS (mutual authentication)
	// Burst: one more sender hands target 0 this many numbered messages in a tight loop, starting at
	// first contact: the burst overlaps the making of the connection and many writer batches
	Burst int `json:"burst,omitempty"`
}

type rec struct {
	g, seq int
	fin    bool
	sender *actor.PID
}

type target struct {
	mu   sync.Mutex
	log  []rec
	fins int
	cond *sync.Cond
	bad  []string
}

func parseData(b []byte) (g, seq int, kind string, ok bool) {
	_, err := fmt.Sscanf(string(b), "%d:%d:%s", &g, &seq, &kind)
	return g, seq, kind, err == nil
}

func (tg *target) receive(c *actor.Context) {
	m, ok := c.Message().(*remote.TestMessage)
	if !ok {
		switch c.Message().(type) {
		case actor.Initialized, actor.Started, actor.Stopped:
		default:
			tg.mu.Lock()
			tg.bad = append(tg.bad, fmt.Sprintf("%T", c.Message()))
			tg.mu.Unlock()
		}
		return
	}
	g, seq, kind, ok := parseData(m.Data)
	tg.mu.Lock()
	defer tg.mu.Unlock()
	if !ok {
		tg.bad = append(tg.bad, fmt.Sprintf("payload %q", m.Data))
		return
	}
	switch kind {
	case "req":
		tg.log = append(tg.log, rec{g: g, seq: seq, sender: nil})
		c.Respond(&remote.TestMessage{Data: []byte(fmt.Sprintf("%d:%d:rep", g, seq))})
	case "fin":
		tg.fins++
		tg.log = append(tg.log, rec{g: g, seq: seq, fin: true, sender: c.Sender()})
		tg.cond.Broadcast()
	default:
		tg.log = append(tg.log, rec{g: g, seq: seq, sender: c.Sender()})
	}
}

func runFlows(c FCase) (map[string]int, error) {
	nt := c.TB + c.TC
	if c.TB < 1 || c.TB > 4 || c.TC < 0 || c.TC > 3 || len(c.Scripts) < 1 || len(c.Scripts) > 6 || c.Burst < 0 || c.Burst > 50000 {
		return nil, nil
	}
	feat := map[string]int{}
	if c.Burst > 0 {
		c.Scripts = append(append([][]Step(nil), c.Scripts...), make([]Step, c.Burst))
		feat["burst-at-first-contact"]++
	}
	if c.TLS {
		feat["tls"]++
	}
	a, ra, addrA, err := nodeCfg("", c.TLS)
	if err != nil {
		return nil, err
	}
	b, rb, addrB, err := nodeCfg("", c.TLS)
	if err != nil {
		return nil, err
	}
	engines := []*actor.Engine{b}
	remotes := []*remote.Remote{ra, rb}
	addrs := []string{addrA, addrB}
	if c.TC > 0 {
		cc, rc, addrC, err := nodeCfg("", c.TLS)
		if err != nil {
			return nil, err
		}
		engines = append(engines, cc)
		remotes = append(remotes, rc)
		addrs = append(addrs, addrC)
		feat["two-peer-addresses"]++
	}
	targets := make([]*target, nt)
	pids := make([]*actor.PID, nt)
	for i := range targets {
		tg := &target{}
		tg.cond = sync.NewCond(&tg.mu)
		targets[i] = tg
		e := engines[0]
		if i >= c.TB {
			e = engines[1]
		}
		pids[i] = e.SpawnFunc(tg.receive, "t", actor.WithID(fmt.Sprint(i)))
	}
	// what each sender expects per target
	type flow struct{ seqs []int }
	nbig := 0
	want := make([]map[int]*flow, len(c.Scripts))
	wantFins := make([]int, nt)
	for g, sc := range c.Scripts {
		want[g] = map[int]*flow{}
		for s, st := range sc {
			if st.T < 0 || st.T >= nt {
				return nil, nil
			}
			if want[g][st.T] == nil {
				want[g][st.T] = &flow{}
				wantFins[st.T]++
			}
			want[g][st.T].seqs = append(want[g][st.T].seqs, s)
			if st.Req {
				feat["request"]++
			}
			if st.Bad != 0 {
				feat["unserialisable-message-in-the-flow"]++
			}
			if st.Big && !st.Req {
				nbig++
			}
		}
	}
	senderPID := func(g int) *actor.PID {
		if g == 0 {
			return nil
		}
		return actor.NewPID(addrA, fmt.Sprintf("sender/%d", g))
	}
	if nbig > 10 {
		return nil, nil
	}
	if nbig >= 4 {
		feat["more-than-1MiB-of-payload-early-in-the-conversation"]++
	}
	var wg sync.WaitGroup
	start := make(chan struct{})
	errs := make(chan error, len(c.Scripts))
	for g, sc := range c.Scripts {
		wg.Add(1)
		go func(g int, sc []Step) {
			defer wg.Done()
			<-start
			for s, st := range sc {
				switch st.Bad {
				case 1:
					a.Send(pids[st.T], fmt.Sprintf("not a protobuf message %d:%d", g, s))
				case 2:
					a.Send(pids[st.T], &actor.PID{Address: "\xff\xfe", ID: "invalid utf-8"})
				}
				if st.Req {
					msg := &remote.TestMessage{Data: []byte(fmt.Sprintf("%d:%d:req", g, s))}
					v, err := a.Request(pids[st.T], msg, wait).Result()
					if err != nil {
						errs <- fmt.Errorf("%w: request %d:%d got no reply in %v", errInconclusive, g, s, wait)
						return
					}
					rm, ok := v.(*remote.TestMessage)
					if !ok || string(rm.Data) != fmt.Sprintf("%d:%d:rep", g, s) {
						errs <- fmt.Errorf("request %d:%d to %s was answered with %v: not the reply to that request", g, s, pids[st.T], v)
						return
					}
					continue
				}
				msg := &remote.TestMessage{Data: []byte(fmt.Sprintf("%d:%d:msg", g, s))}
				if st.Big {
					msg.Data = append(msg.Data, bigPad...)
				}
				if p := senderPID(g); p != nil {
					a.SendWithSender(pids[st.T], msg, p)
				} else {
					a.Send(pids[st.T], msg)
				}
			}
			for t := range want[g] {
				fin := &remote.TestMessage{Data: []byte(fmt.Sprintf("%d:%d:fin", g, len(sc)))}
				if p := senderPID(g); p != nil {
					a.SendWithSender(pids[t], fin, p)
				} else {
					a.Send(pids[t], fin)
				}
			}
		}(g, sc)
	}
	close(start)
	wg.Wait()
	select {
	case err := <-errs:
		return nil, err
	default:
	}
	// completion: every flow's final marker arrived (it was sent last on that flow)
	for i, tg := range targets {
		tm := time.AfterFunc(wait, func() { tg.mu.Lock(); tg.cond.Broadcast(); tg.mu.Unlock() })
		deadline := time.Now().Add(wait)
		tg.mu.Lock()
		for tg.fins < wantFins[i] {
			if time.Now().After(deadline) {
				tg.mu.Unlock()
				tm.Stop()
				return nil, fmt.Errorf("%w: target %d saw %d of %d final markers", errInconclusive, i, tg.fins, wantFins[i])
			}
			tg.cond.Wait()
		}
		tg.mu.Unlock()
		tm.Stop()
	}
	for i, tg := range targets {
		tg.mu.Lock()
		if len(tg.bad) > 0 {
			tg.mu.Unlock()
			return nil, fmt.Errorf("target %d received something nobody sent: %v", i, tg.bad)
		}
		pos := map[int]int{}
		finSeen := map[int]bool{}
		for k, r := range tg.log {
			f := (*flow)(nil)
			if r.g >= 0 && r.g < len(want) {
				f = want[r.g][i]
			}
			if f == nil {
				tg.mu.Unlock()
				return nil, fmt.Errorf("target %d, delivery %d: message %d:%d was never sent to it", i, k, r.g, r.seq)
			}
			if finSeen[r.g] {
				tg.mu.Unlock()
				return nil, fmt.Errorf("target %d, delivery %d: message %d:%d arrived after the final marker of its sender (reordered or duplicated)", i, k, r.g, r.seq)
			}
			if r.fin {
				finSeen[r.g] = true
				if pos[r.g] != len(f.seqs) {
					tg.mu.Unlock()
					return nil, fmt.Errorf("target %d: the final marker of sender %d arrived after %d of its %d messages: a message was lost or overtaken", i, r.g, pos[r.g], len(f.seqs))
				}
			} else {
				if pos[r.g] >= len(f.seqs) || f.seqs[pos[r.g]] != r.seq {
					tg.mu.Unlock()
					return nil, fmt.Errorf("target %d, delivery %d: sender %d: got its message #%d, expected #%v next (lost, duplicated or reordered)", i, k, r.g, r.seq, f.seqs[min(pos[r.g], len(f.seqs)-1)])
				}
				pos[r.g]++
			}
			if !c.Scripts[r.g][min(r.seq, len(c.Scripts[r.g])-1)].Req || r.fin {
				wantS := senderPID(r.g)
				if (wantS == nil) != (r.sender == nil) || (wantS != nil && !wantS.Equals(r.sender)) {
					tg.mu.Unlock()
					return nil, fmt.Errorf("target %d, delivery %d: message %d:%d sent with sender %v arrived with sender %v", i, k, r.g, r.seq, wantS, r.sender)
				}
			}
		}
		tg.mu.Unlock()
	}
	// ---- lifecycle of the remotes
	for i, r := range remotes {
		if err := r.Start(a); err == nil {
			return nil, fmt.Errorf("starting remote %d a second time did not fail", i)
		}
		done := make(chan struct{})
		go func() { r.Stop().Wait(); r.Stop().Wait(); close(done) }()
		select {
		case <-done:
		case <-time.After(wait):
			return nil, fmt.Errorf("%w: Stop().Wait() (twice) of remote %d did not return", errInconclusive, i)
		}
		if conn, err := stdnet.DialTimeout("tcp", addrs[i], 2*time.Second); err == nil {
			conn.Close()
			return nil, fmt.Errorf("remote %d still accepts connections on %s after Stop().Wait()", i, addrs[i])
		}
	}
	if len(c.Scripts) >= 2 && nt >= 2 {
		feat["multi-sender-multi-target"]++
	}
	return feat, nil
}

func genFlows(t *rapid.T) FCase {
	c := FCase{TB: rapid.IntRange(1, 4).Draw(t, "tb")}
	if rapid.IntRange(0, 2).Draw(t, "third") == 0 {
		c.TC = rapid.IntRange(1, 3).Draw(t, "tc")
	}
	g := rapid.IntRange(1, 6).Draw(t, "senders")
	for i := 0; i < g; i++ {
		n := rapid.IntRange(1, 40).Draw(t, "n")
		sc := make([]Step, n)
		for j := range sc {
			sc[j].T = rapid.IntRange(0, c.TB+c.TC-1).Draw(t, "t")
			sc[j].Req = rapid.IntRange(0, 9).Draw(t, "req") == 0
			if rapid.IntRange(0, 11).Draw(t, "bad") == 0 {
				sc[j].Bad = rapid.IntRange(1, 2).Draw(t, "badkind")
			}
		}
		c.Scripts = append(c.Scripts, sc)
	}
	c.TLS = rapid.IntRange(0, 3).Draw(t, "tls") == 0
	if rapid.IntRange(0, 7).Draw(t, "burstcase") == 0 {
		c.Burst = rapid.SampledFrom([]int{2000, 20000}).Draw(t, "burst")
	}
	if rapid.IntRange(0, 4).Draw(t, "bigcase") == 0 {
		budget := 10
		for g := range c.Scripts {
			k := rapid.IntRange(0, min(4, len(c.Scripts[g]), budget)).Draw(t, "nbig")
			for i := 0; i < k; i++ {
				c.Scripts[g][i].Big = true
			}
			budget -= k
		}
	}
	return c
}

func TestRemoteFlows(t *testing.T) {
	st := vh.Test("TestRemoteFlows")
	rapid.Check(t, func(t *rapid.T) {
		c := genFlows(t)
		st.Begin(c)
		feat, err := runFlows(c)
		if errors.Is(err, errInconclusive) || (err != nil && strings.HasPrefix(err.Error(), "harness: ")) {
			if st.Failed() > 0 {
				return
			}
			t.Fatalf("harness: %v", err)
		}
		if err != nil {
			st.Fail(c, err)
			t.Fatalf("%v", err)
		}
		var labels []string
		for k := range feat {
			labels = append(labels, k)
		}
		st.Done(c, feat["multi-sender-multi-target"] > 0, labels...)
	})
}

// ---- unreachable episodes ----------------------------------------------------------------

type UCase struct {
	K   int  `json:"k"`             // messages sent while nobody listens
	N   int  `json:"n"`             // episode number (distinguishes otherwise equal cases)
	TLS bool `json:"tls,omitempty"` // both nodes are configured WithTLS: the failing dial is tls.Dial
	// Group: the episodes of one run (they run side by side).  Journaled before they start: a process
	// that does not survive an unreachable peer publishes nothing, and the group is the reproduction.
	Group []UCase `json:"group,omitempty"`
	// Peer: "" = nobody holds the port open for connections; "stranger" (TLS) = something accepts TCP
	// connections there but its certificate is of an unrelated CA: no handshake succeeds, the peer
	// "cannot be reached" just the same; "late" = the first dial attempts are refused, then the peer
	// is listening (see runLate)
	Peer string `json:"peer,omitempty"`
}

type sentinel struct{ N int }

func runEpisode(c UCase) error {
	if len(c.Group) > 0 {
		errs := make([]error, len(c.Group))
		var wg sync.WaitGroup
		for i, g := range c.Group {
			if len(g.Group) > 0 {
				return nil
			}
			wg.Add(1)
			go func(i int, g UCase) { defer wg.Done(); errs[i] = runEpisode(g) }(i, g)
		}
		wg.Wait()
		for _, err := range errs {
			if err != nil && !errors.Is(err, errInconclusive) {
				return err
			}
		}
		for _, err := range errs {
			if err != nil {
				return err
			}
		}
		return nil
	}
	if c.K < 1 || c.K > 50 {
		return nil
	}
	if c.Peer == "late" {
		return runLate(c)
	}
	if c.Peer == "stranger" && !c.TLS {
		return nil
	}
	a, ra, _, err := nodeCfg("", c.TLS)
	if err != nil {
		return err
	}
	defer ra.Stop()
	dead, release, err := reserve()
	if err != nil {
		return fmt.Errorf("harness: %v", err)
	}
	defer release()
	var (
		mu      sync.Mutex
		cond    = sync.NewCond(&mu)
		unreach int
		dls     int
		sents   int
		crashed string // the router or a stream writer was restarted / gave up: the attempt ended in a crash
	)
	mon := a.SpawnFunc(func(ctx *actor.Context) {
		mu.Lock()
		defer mu.Unlock()
		switch ev := ctx.Message().(type) {
		case actor.RemoteUnreachableEvent:
			if ev.ListenAddr == dead {
				unreach++
			}
		case actor.DeadLetterEvent:
			if ev.Target != nil && ev.Target.ID == "stream/"+dead {
				dls++
			}
		case sentinel:
			sents = ev.N
		case actor.ActorRestartedEvent:
			if ev.PID != nil && (ev.PID.ID == "router" || strings.HasPrefix(ev.PID.ID, "stream/")) && crashed == "" {
				crashed = fmt.Sprintf("%s was restarted after: %v", ev.PID.ID, ev.Reason)
			}
		}
		cond.Broadcast()
	}, "monitor")
	a.Subscribe(mon)
	waitFor := func(d time.Duration, f func() bool) bool {
		tm := time.AfterFunc(d, func() { mu.Lock(); cond.Broadcast(); mu.Unlock() })
		defer tm.Stop()
		deadline := time.Now().Add(d)
		mu.Lock()
		defer mu.Unlock()
		for !f() {
			if time.Now().After(deadline) {
				return false
			}
			cond.Wait()
		}
		return true
	}
	stopStranger := func() {}
	if c.Peer == "stranger" {
		scfg, err := strangerTLS()
		if err != nil {
			return fmt.Errorf("harness: TLS material: %v", err)
		}
		release()
		l, err := tls.Listen("tcp", dead, scfg)
		if err != nil {
			return fmt.Errorf("harness: %v", err)
		}
		own(dead, true)
		go func() {
			for {
				conn, err := l.Accept()
				if err != nil {
					return
				}
				go func() {
					defer conn.Close()
					buf := make([]byte, 1024)
					for {
						if _, err := conn.Read(buf); err != nil {
							return
						}
					}
				}()
			}
		}()
		var once sync.Once
		stopStranger = func() { once.Do(func() { l.Close(); own(dead, false) }) }
		defer stopStranger()
	}
	tpid := actor.NewPID(dead, "t/0")
	for i := 0; i < c.K; i++ {
		a.Send(tpid, &remote.TestMessage{Data: []byte(fmt.Sprintf("0:%d:msg", i))})
	}
	if !waitFor(wait, func() bool { return unreach >= 1 || crashed != "" }) {
		return fmt.Errorf("%w: no RemoteUnreachableEvent for %s", errInconclusive, dead)
	}
	mu.Lock()
	cr, un := crashed, unreach
	mu.Unlock()
	if un == 0 && cr != "" {
		// the router runs the connection attempt inside its own Receive (it starts the stream writer,
		// which dials): a restart of the router is the end of that attempt - no event will follow
		return fmt.Errorf("the connection attempt to the unreachable %s (tls=%v) ended in a crash instead of a RemoteUnreachableEvent: %s", dead, c.TLS, cr)
	}
	// the peer comes up on that address; a later send must make a fresh, successful attempt
	release()
	stopStranger()
	b, rb, _, err := nodeCfg(dead, c.TLS)
	if err != nil {
		return err
	}
	defer rb.Stop()
	got := make(chan string, 4)
	b.SpawnFunc(func(ctx *actor.Context) {
		if m, ok := ctx.Message().(*remote.TestMessage); ok {
			got <- string(m.Data)
		}
	}, "t", actor.WithID("0"))
	a.Send(tpid, &remote.TestMessage{Data: []byte("0:0:later")})
	deadline := time.After(wait)
	tick := time.NewTicker(20 * time.Millisecond)
	defer tick.Stop()
loop:
	for {
		select {
		case d := <-got:
			if d != "0:0:later" {
				return fmt.Errorf("after the peer came up it received %q: a message handed to the failed connection attempt was delivered, or garbage", d)
			}
			break loop
		case <-tick.C:
			mu.Lock()
			n := dls
			mu.Unlock()
			if n > c.K {
				return fmt.Errorf("%d messages were sent while %s was down, yet %d DeadLetterEvents name its stream writer: the send made after the peer came up did not get a fresh connection attempt", c.K, dead, n)
			}
		case <-deadline:
			return fmt.Errorf("%w: the message sent after the peer came up neither arrived nor dead-lettered", errInconclusive)
		}
	}
	// the router has handled everything that was queued before the later message
	a.BroadcastEvent(sentinel{1})
	if !waitFor(wait, func() bool { return sents >= 1 }) {
		return fmt.Errorf("%w: sentinel lost", errInconclusive)
	}
	mu.Lock()
	defer mu.Unlock()
	if dls != c.K {
		return fmt.Errorf("%d messages were handed to the connection attempt to the unreachable %s, %d DeadLetterEvents name its stream writer (want one per message)", c.K, dead, dls)
	}
	return nil
}

// ---- failed dials, as the stream writer logs them (slog.Error "net.Dial" / "tls.Dial", attr "remote")

type dialLogHandler struct {
	next slog.Handler
}

var (
	dialMu    sync.Mutex
	dialFails = map[string]int{}
	dialOnce  sync.Once
)

func (h dialLogHandler) Enabled(ctx context.Context, l slog.Level) bool { return true }
func (h dialLogHandler) Handle(ctx context.Context, r slog.Record) error {
	if r.Message == "net.Dial" || r.Message == "tls.Dial" {
		r.Attrs(func(a slog.Attr) bool {
			if a.Key == "remote" {
				dialMu.Lock()
				dialFails[a.Value.String()]++
				dialMu.Unlock()
				return false
			}
			return true
		})
	}
	if h.next.Enabled(ctx, r.Level) {
		return h.next.Handle(ctx, r)
	}
	return nil
}
func (h dialLogHandler) WithAttrs(a []slog.Attr) slog.Handler {
	return dialLogHandler{h.next.WithAttrs(a)}
}
func (h dialLogHandler) WithGroup(n string) slog.Handler { return dialLogHandler{h.next.WithGroup(n)} }

func dialFailures(addr string) int {
	dialOnce.Do(func() { slog.SetDefault(slog.New(dialLogHandler{slog.Default().Handler()})) })
	dialMu.Lock()
	defer dialMu.Unlock()
	return dialFails[addr]
}

// runLate: the address refuses the first connection attempts and accepts later ones (a peer that
// comes up while the writer is still trying).  The address is a small forwarder owned by the harness,
// which counts the connections it accepted and passes them on to the real peer: whether an attempt
// got through is observed, not inferred from a clock.  Allowed outcomes: every message arrives, in
// order, and nothing is reported; or no attempt got through (a slow machine: the forwarder came up
// after the last attempt) and the address is reported unreachable with one dead letter per message.
// An address that is reported unreachable although an attempt got through - messages dead-lettered
// over a standing connection - is neither.
func runLate(c UCase) error {
	a, ra, _, err := node("")
	if err != nil {
		return err
	}
	defer ra.Stop()
	b, rb, addrB, err := node("")
	if err != nil {
		return err
	}
	defer rb.Stop()
	own(addrB, true)
	defer own(addrB, false)
	front, release, err := reserve()
	if err != nil {
		return fmt.Errorf("harness: %v", err)
	}
	defer release()
	var (
		mu      sync.Mutex
		cond    = sync.NewCond(&mu)
		unreach int
		dls     int
		got     []string
	)
	mon := a.SpawnFunc(func(ctx *actor.Context) {
		mu.Lock()
		defer mu.Unlock()
		switch ev := ctx.Message().(type) {
		case actor.RemoteUnreachableEvent:
			if ev.ListenAddr == front {
				unreach++
			}
		case actor.DeadLetterEvent:
			if ev.Target != nil && ev.Target.ID == "stream/"+front {
				dls++
			}
		}
		cond.Broadcast()
	}, "monitor")
	a.Subscribe(mon)
	b.SpawnFunc(func(ctx *actor.Context) {
		if m, ok := ctx.Message().(*remote.TestMessage); ok {
			mu.Lock()
			got = append(got, string(m.Data))
			cond.Broadcast()
			mu.Unlock()
		}
	}, "t", actor.WithID("0"))
	dialFailures(front) // (installs the log tap)
	tpid := actor.NewPID(front, "t/0")
	for i := 0; i < c.K; i++ {
		a.Send(tpid, &remote.TestMessage{Data: []byte(fmt.Sprintf("0:%d:msg", i))})
	}
	// bring the forwarder up once the writer has been refused (it logs every failed dial; the writer
	// tries twice at once and a third time a second later).  The log only decides WHEN the forwarder
	// comes up; whether an attempt got through afterwards is counted by the forwarder itself.
	for t0 := time.Now(); dialFailures(front) < 1 && time.Since(t0) < 700*time.Millisecond; {
		time.Sleep(2 * time.Millisecond)
	}
	release()
	l, err := stdnet.Listen("tcp", front)
	if err != nil {
		return fmt.Errorf("harness: %v", err)
	}
	defer l.Close()
	var accepted atomic.Int32
	go func() {
		for {
			conn, err := l.Accept()
			if err != nil {
				return
			}
			accepted.Add(1)
			back, err := stdnet.Dial("tcp", addrB)
			if err != nil {
				conn.Close()
				continue
			}
			go func() { io.Copy(back, conn); back.Close() }()
			go func() { io.Copy(conn, back); conn.Close() }()
		}
	}()
	tm := time.AfterFunc(wait, func() { mu.Lock(); cond.Broadcast(); mu.Unlock() })
	defer tm.Stop()
	deadline := time.Now().Add(wait)
	mu.Lock()
	defer mu.Unlock()
	for len(got) < c.K && unreach == 0 {
		if time.Now().After(deadline) {
			return fmt.Errorf("%w: neither delivery nor RemoteUnreachableEvent for the late peer", errInconclusive)
		}
		cond.Wait()
	}
	if unreach > 0 && accepted.Load() == 0 {
		// a connection that was established sits in the listener's backlog until the forwarder's
		// goroutine gets to Accept it: let it (the count decides, not the pause)
		mu.Unlock()
		for t0 := time.Now(); accepted.Load() == 0 && time.Since(t0) < 500*time.Millisecond; {
			time.Sleep(5 * time.Millisecond)
		}
		mu.Lock()
	}
	if os.Getenv("VERIF_DEBUG") != "" {
		fmt.Fprintf(os.Stderr, "late episode %s: unreach=%d accepted=%d got=%d dls=%d dialfails=%d\n", front, unreach, accepted.Load(), len(got), dls, dialFailures(front))
	}
	if unreach > 0 {
		if n := accepted.Load(); n > 0 {
			return fmt.Errorf("%s refused the first connection attempts and accepted a later one (the forwarder in front of the peer took %d connection(s)); the writer reported the address unreachable all the same: %d of %d messages arrived, %d DeadLetterEvents", front, n, len(got), c.K, dls)
		}
		return nil // no attempt got through: a legitimate "cannot be reached" (judged by the plain episodes)
	}
	for i, d := range got {
		if d != fmt.Sprintf("0:%d:msg", i) {
			return fmt.Errorf("the late peer received %v: not the sent sequence", got)
		}
	}
	if dls != 0 {
		return fmt.Errorf("all %d messages reached the late peer, and %d DeadLetterEvents name its stream writer", c.K, dls)
	}
	return nil
}

func TestUnreachable(t *testing.T) {
	st := vh.Test("TestUnreachable")
	n := 9
	if vh.Tier() == "thorough" {
		n = 18
	}
	seed := vh.Seed()
	var wg sync.WaitGroup
	errs := make([]error, n)
	cases := make([]UCase, n)
	for i := 0; i < n; i++ {
		// K is a pure function of the seed and the episode number (no generator library here:
		// the episodes run in parallel because each sleeps 3 s inside the stream writer)
		cases[i] = UCase{K: 1 + int((uint64(seed)*2654435761+uint64(i)*40503)%12), N: i, TLS: i%3 == 1}
		switch {
		case i%6 == 4:
			cases[i].Peer = "stranger"
			cases[i].TLS = true
		case i%3 == 2:
			cases[i].Peer = "late"
		}
	}
	st.Begin(UCase{Group: cases})
	for i := 0; i < n; i++ {
		wg.Add(1)
		go func(i int) { defer wg.Done(); errs[i] = runEpisode(cases[i]) }(i)
	}
	wg.Wait()
	for i, err := range errs {
		if errors.Is(err, errInconclusive) || (err != nil && strings.HasPrefix(err.Error(), "harness: ")) {
			t.Fatalf("harness: %v", err)
		}
		if err != nil {
			st.Fail(cases[i], err)
			t.Fatalf("%v", err)
		}
		if cases[i].Peer != "" {
			st.Done(cases[i], true, "unreachable-episode", "peer-"+cases[i].Peer)
		} else if cases[i].TLS {
			st.Done(cases[i], true, "unreachable-episode", "tls-dial-fails")
		} else {
			st.Done(cases[i], true, "unreachable-episode")
		}
	}
}

func init() {
	vh.RegisterReplay("TestRemoteFlows", func(raw json.RawMessage) error {
		var c FCase
		if err := json.Unmarshal(raw, &c); err != nil {
			return err
		}
		_, err := runFlows(c)
		return err
	})
	vh.RegisterReplay("TestUnreachable", func(raw json.RawMessage) error {
		var c UCase
		if err := json.Unmarshal(raw, &c); err != nil {
			return err
		}
		return runEpisode(c)
	})
}
