// C17, connection loss: "a later send to the same address makes a fresh attempt that succeeds once
// the peer is up" - also when the address had been reachable before and the peer went away in the
// middle of a conversation.  An episode: node A talks to P peers (established connections, verified
// by a marker per peer), every peer node stops (Remote.Stop().Wait(), which ends its connections),
// A publishes RemoteUnreachableEvent for each address, new peer nodes come up on the same
// addresses, A sends again.
//
// Oracle: while the connection is up, per-peer delivery is the sent sequence; after A has published
// RemoteUnreachableEvent for an address (the writer hands the same report to the router BEFORE it
// broadcasts it, and everything A sends afterwards queues behind that report in the router's
// inbox), a message sent once the new peer is listening must arrive there; a DeadLetterEvent naming
// the stream writer of that address for such a message means no fresh attempt was made - a verdict,
// not a timeout.
package net

import (
	"encoding/json"
	"errors"
	"fmt"
	"strings"
	"sync"
	"testing"
	"time"

	"github.com/anthdm/hollywood/actor"
	"github.com/anthdm/hollywood/remote"

	"verif/internal/vh"
)

type RCase struct {
	Peers  int `json:"peers"`  // peers that A is connected to
	Before int `json:"before"` // messages per peer before the loss
	After  int `json:"after"`  // messages per peer after the peer is back
	N      int `json:"n"`
	// Names: the peers listen on, and are addressed as, "localhost:<port>" instead of an IP literal:
	// the address in a PID is a name, the address of the connection is not
	Names bool `json:"names,omitempty"`
}

type peer struct {
	addr string
	e    *actor.Engine
	r    *remote.Remote
	mu   sync.Mutex
	got  []string
	ch   chan string
}

func startPeer(addr string, names bool) (*peer, error) {
	if addr == "" && names {
		// a free port of this process's block, held under its name
		var last error
		for try := 0; try < 5 && addr == ""; try++ {
			a, err := freeAddr()
			if err != nil {
				last = err
				continue
			}
			addr = "localhost" + a[strings.LastIndex(a, ":"):]
		}
		if addr == "" {
			return nil, fmt.Errorf("harness: %v", last)
		}
	}
	e, r, a, err := node(addr)
	if err != nil {
		return nil, err
	}
	own(a, true)
	p := &peer{addr: a, e: e, r: r, ch: make(chan string, 256)}
	e.SpawnFunc(func(ctx *actor.Context) {
		if m, ok := ctx.Message().(*remote.TestMessage); ok {
			p.mu.Lock()
			p.got = append(p.got, string(m.Data))
			p.mu.Unlock()
			p.ch <- string(m.Data)
		}
	}, "t", actor.WithID("0"))
	return p, nil
}

func (p *peer) await(want string, d time.Duration) bool {
	deadline := time.After(d)
	for {
		select {
		case s := <-p.ch:
			if s == want {
				return true
			}
		case <-deadline:
			return false
		}
	}
}

func runRestart(c RCase) error {
	if c.Peers < 1 || c.Peers > 64 || c.Before < 0 || c.Before > 50 || c.After < 1 || c.After > 50 {
		return nil
	}
	a, ra, _, err := node("")
	if err != nil {
		return err
	}
	defer ra.Stop()
	var (
		mu      sync.Mutex
		cond    = sync.NewCond(&mu)
		unreach = map[string]int{}
		dls     = map[string][]string{} // addr -> payloads of dead letters naming its stream writer
		known   = map[string]bool{}     // the addresses A sends to
		stray   string                  // a RemoteUnreachableEvent for an address A never sent to
	)
	mon := a.SpawnFunc(func(ctx *actor.Context) {
		mu.Lock()
		defer mu.Unlock()
		switch ev := ctx.Message().(type) {
		case actor.RemoteUnreachableEvent:
			unreach[ev.ListenAddr]++
			if !known[ev.ListenAddr] && stray == "" {
				stray = ev.ListenAddr
			}
		case actor.DeadLetterEvent:
			if ev.Target != nil && strings.HasPrefix(ev.Target.ID, "stream/") {
				dls[strings.TrimPrefix(ev.Target.ID, "stream/")] = append(dls[strings.TrimPrefix(ev.Target.ID, "stream/")], fmt.Sprintf("%T", ev.Message))
			}
		}
		cond.Broadcast()
	}, "monitor")
	a.Subscribe(mon)
	waitFor := func(d time.Duration, f func() bool) bool {
		tm := time.AfterFunc(d, func() { mu.Lock(); cond.Broadcast(); mu.Unlock() })
		defer tm.Stop()
		deadline := time.Now().Add(d)
		mu.Lock()
		defer mu.Unlock()
		for !f() {
			if time.Now().After(deadline) {
				return false
			}
			cond.Wait()
		}
		return true
	}
	peers := make([]*peer, c.Peers)
	for i := range peers {
		if peers[i], err = startPeer("", c.Names); err != nil {
			return err
		}
	}
	defer func() {
		for _, p := range peers {
			if p != nil {
				p.r.Stop().Wait()
				own(p.addr, false)
			}
		}
	}()
	mu.Lock()
	for _, p := range peers {
		known[p.addr] = true
	}
	mu.Unlock()
	send := func(p *peer, s string) {
		a.Send(actor.NewPID(p.addr, "t/0"), &remote.TestMessage{Data: []byte(s)})
	}
	// ---- phase 1: connected
	for _, p := range peers {
		for k := 0; k < c.Before; k++ {
			send(p, fmt.Sprintf("before:%d", k))
		}
		send(p, "marker1")
	}
	for i, p := range peers {
		if !p.await("marker1", wait) {
			return fmt.Errorf("%w: peer %d never got the first marker", errInconclusive, i)
		}
		p.mu.Lock()
		got := append([]string(nil), p.got...)
		p.mu.Unlock()
		if len(got) != c.Before+1 {
			return fmt.Errorf("peer %d received %v while the connection was up, want %d messages and the marker, each once and in order", i, got, c.Before)
		}
		for k := 0; k < c.Before; k++ {
			if got[k] != fmt.Sprintf("before:%d", k) {
				return fmt.Errorf("peer %d received %v while the connection was up: not the sent sequence", i, got)
			}
		}
	}
	// ---- phase 2: every peer goes away; A notices
	for _, p := range peers {
		p.r.Stop().Wait()
	}
	for i, p := range peers {
		addr := p.addr
		if !waitFor(wait, func() bool { return unreach[addr] >= 1 || stray != "" }) {
			return fmt.Errorf("%w: no RemoteUnreachableEvent for peer %d after it stopped", errInconclusive, i)
		}
		mu.Lock()
		st := stray
		mu.Unlock()
		if st != "" {
			return fmt.Errorf("the peers %s... went away; A published a RemoteUnreachableEvent for %q, an address it never sent anything to (the event names the address the messages were sent to: that is what a later send will use again)", peers[0].addr, st)
		}
	}
	// ... and the failed connection is over: its stream writer has unregistered (the writer reports
	// before it unregisters; a send in between is not "later" yet)
	for i, p := range peers {
		deadline := time.Now().Add(wait)
		for a.Registry.GetPID("stream", p.addr) != nil {
			if time.Now().After(deadline) {
				return fmt.Errorf("%w: the stream writer for peer %d is still registered long after it reported the peer unreachable", errInconclusive, i)
			}
			time.Sleep(time.Millisecond)
		}
	}
	mu.Lock()
	for addr, l := range dls {
		if len(l) > 0 {
			mu.Unlock()
			return fmt.Errorf("harness: dead letters %v for %s although nothing was sent while it was down", l, addr)
		}
	}
	mu.Unlock()
	// ---- phase 3: the peers come back on the same addresses; later sends make fresh attempts
	old := peers
	peers = make([]*peer, c.Peers)
	for i := range peers {
		if peers[i], err = startPeer(old[i].addr, c.Names); err != nil {
			return err
		}
	}
	for _, p := range peers {
		for k := 0; k < c.After; k++ {
			send(p, fmt.Sprintf("after:%d", k))
		}
		send(p, "marker2")
	}
	for i, p := range peers {
		deadline := time.After(wait)
		tick := time.NewTicker(20 * time.Millisecond)
		arrived := false
		for !arrived {
			select {
			case s := <-p.ch:
				arrived = s == "marker2"
			case <-tick.C:
				mu.Lock()
				l := append([]string(nil), dls[p.addr]...)
				mu.Unlock()
				if len(l) > 0 {
					tick.Stop()
					return fmt.Errorf("peer %d of %d (%s) went away and came back; A had published RemoteUnreachableEvent for it before the new messages were sent, yet %d of them became DeadLetterEvents naming the old stream writer (%v): no fresh connection attempt was made",
						i, c.Peers, p.addr, len(l), l)
				}
			case <-deadline:
				tick.Stop()
				return fmt.Errorf("%w: what was sent to peer %d after it came back neither arrived nor dead-lettered", errInconclusive, i)
			}
		}
		tick.Stop()
		p.mu.Lock()
		got := append([]string(nil), p.got...)
		p.mu.Unlock()
		if len(got) != c.After+1 {
			return fmt.Errorf("peer %d received %v after it came back, want %d messages and the marker, each once and in order", i, got, c.After)
		}
		for k := 0; k < c.After; k++ {
			if got[k] != fmt.Sprintf("after:%d", k) {
				return fmt.Errorf("peer %d received %v after it came back: not the sent sequence", i, got)
			}
		}
	}
	return nil
}

func TestPeerRestart(t *testing.T) {
	st := vh.Test("TestPeerRestart")
	n, par := 6, 3
	if vh.Tier() == "thorough" {
		n, par = 60, 4
	}
	seed := uint64(vh.Seed())
	cases := make([]RCase, n)
	errs := make([]error, n)
	sem := make(chan struct{}, par)
	var wg sync.WaitGroup
	for i := 0; i < n; i++ {
		// a pure function of the seed and the episode number (the episodes run in parallel)
		h := seed*2654435761 + uint64(i)*40503
		cases[i] = RCase{Peers: 8 + int(h%25), Before: int((h / 7) % 4), After: 1 + int((h/31)%3), N: i, Names: i%2 == 1}
		wg.Add(1)
		go func(i int) {
			defer wg.Done()
			sem <- struct{}{}
			defer func() { <-sem }()
			errs[i] = runRestart(cases[i])
		}(i)
	}
	wg.Wait()
	for i, err := range errs {
		if errors.Is(err, errInconclusive) || (err != nil && strings.HasPrefix(err.Error(), "harness: ")) {
			t.Fatalf("harness: %v", err)
		}
		if err != nil {
			st.Fail(cases[i], err)
			t.Fatalf("%v", err)
		}
		nm := ""
		if cases[i].Names {
			nm = "peers-addressed-by-host-name"
		}
		st.Done(cases[i], true, "peer-restart-episode", fmt.Sprintf("peers>=%d", cases[i].Peers/8*8), nm)
	}
}

func init() {
	vh.RegisterReplay("TestPeerRestart", func(raw json.RawMessage) error {
		var c RCase
		if err := json.Unmarshal(raw, &c); err != nil {
			return err
		}
		// the defect this leg looks for is a race inside the node: repeat the episode
		for i := 0; i < 10; i++ {
			if err := runRestart(c); err != nil {
				return err
			}
		}
		return nil
	})
}
