package net

// TLS as a configuration dimension of the connected-flows leg: the same generated flows, every node
// configured WithTLS (mutual authentication against one throw-away CA, certificates for 127.0.0.1).

import (
	"crypto/ecdsa"
	"crypto/elliptic"
	"crypto/rand"
	"crypto/tls"
	"crypto/x509"
	"crypto/x509/pkix"
	"math/big"
	stdnet "net"
	"sync"
	"time"
)

var (
	tlsOnce sync.Once
	tlsCfg  *tls.Config
	tlsErr  error
)

var (
	strangerOnce sync.Once
	strangerCfg  *tls.Config
	strangerErr  error
)

// strangerTLS is a second, unrelated throw-away CA: a peer configured with it accepts TCP connections
// on its port, but no handshake with a node of the shared CA succeeds.
func strangerTLS() (*tls.Config, error) {
	strangerOnce.Do(func() { strangerCfg, strangerErr = makeTLS() })
	return strangerCfg, strangerErr
}

// sharedTLS returns one mutually-authenticating config (used by every node of a TLS case).
func sharedTLS() (*tls.Config, error) {
	tlsOnce.Do(func() { tlsCfg, tlsErr = makeTLS() })
	return tlsCfg, tlsErr
}

func makeTLS() (tlsCfg *tls.Config, tlsErr error) {
	func() {
		caKey, err := ecdsa.GenerateKey(elliptic.P256(), rand.Reader)
		if err != nil {
			tlsErr = err
			return
		}
		ca := &x509.Certificate{
			SerialNumber: big.NewInt(1), Subject: pkix.Name{Organization: []string{"verif harness CA"}},
			NotBefore: time.Now().Add(-time.Hour), NotAfter: time.Now().Add(48 * time.Hour),
			KeyUsage: x509.KeyUsageCertSign | x509.KeyUsageDigitalSignature, BasicConstraintsValid: true, IsCA: true,
			ExtKeyUsage: []x509.ExtKeyUsage{x509.ExtKeyUsageClientAuth, x509.ExtKeyUsageServerAuth},
		}
		caDER, err := x509.CreateCertificate(rand.Reader, ca, ca, &caKey.PublicKey, caKey)
		if err != nil {
			tlsErr = err
			return
		}
		caCert, err := x509.ParseCertificate(caDER)
		if err != nil {
			tlsErr = err
			return
		}
		pool := x509.NewCertPool()
		pool.AddCert(caCert)
		key, err := ecdsa.GenerateKey(elliptic.P256(), rand.Reader)
		if err != nil {
			tlsErr = err
			return
		}
		leaf := &x509.Certificate{
			SerialNumber: big.NewInt(2), Subject: pkix.Name{CommonName: "localhost"},
			DNSNames: []string{"localhost"}, IPAddresses: []stdnet.IP{stdnet.IPv4(127, 0, 0, 1), stdnet.IPv6loopback},
			NotBefore: time.Now().Add(-time.Hour), NotAfter: time.Now().Add(48 * time.Hour),
			KeyUsage: x509.KeyUsageDigitalSignature, ExtKeyUsage: []x509.ExtKeyUsage{x509.ExtKeyUsageClientAuth, x509.ExtKeyUsageServerAuth},
		}
		der, err := x509.CreateCertificate(rand.Reader, leaf, caCert, &key.PublicKey, caKey)
		if err != nil {
			tlsErr = err
			return
		}
		tlsCfg = &tls.Config{
			Certificates: []tls.Certificate{{Certificate: [][]byte{der}, PrivateKey: key}},
			ClientCAs:    pool, RootCAs: pool, ClientAuth: tls.RequireAndVerifyClientCert,
		}
	}()
	return tlsCfg, tlsErr
}
