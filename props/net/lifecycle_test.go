// C17, lifecycle clause: "After Remote.Stop().Wait() the node accepts no more inbound connections;
// Start twice or Stop twice is harmless."  The flows leg checks this once per case, at the end of a
// conversation.  Here the lifecycle is the generated value: sequences of Start / Start-again /
// Stop().Wait() / Stop-again on fresh remotes, with a TCP dial straight after every Stop().Wait() -
// also when the Stop follows its Start at once, before the serving goroutine has run.
package net

import (
	"encoding/json"
	"errors"
	"fmt"
	stdnet "net"
	"strings"
	"testing"
	"time"

	"github.com/anthdm/hollywood/actor"
	"github.com/anthdm/hollywood/remote"
	"pgregory.net/rapid"

	"verif/internal/vh"
)

type LCase struct {
	Ops    []string `json:"ops"`    // start | restart (Start on a started remote) | stop | stop2 | yield
	Cycles int      `json:"cycles"` // the op list is run on this many fresh remotes in a row
}

func runLifecycle(c LCase) error {
	if len(c.Ops) < 1 || len(c.Ops) > 10 || c.Cycles < 1 || c.Cycles > 200 {
		return nil
	}
	for cy := 0; cy < c.Cycles; cy++ {
		addr, err := freeAddr()
		if err != nil {
			return fmt.Errorf("harness: %v", err)
		}
		own(addr, true)
		r := remote.New(addr, remote.NewConfig())
		var e *actor.Engine
		started, stopped := false, false
		for i, op := range c.Ops {
			switch op {
			case "start":
				if started {
					continue
				}
				var serr error
				e, serr = actor.NewEngine(actor.NewEngineConfig().WithRemote(r))
				if serr != nil {
					own(addr, false)
					return fmt.Errorf("harness: cannot start a node on %s: %v", addr, serr)
				}
				started = true
			case "restart":
				if !started {
					continue
				}
				if rerr := r.Start(e); rerr == nil && !stopped {
					own(addr, false)
					return fmt.Errorf("cycle %d op %d: Start on a remote that is running returned no error", cy, i)
				}
			case "stop", "stop2":
				if !started {
					continue
				}
				if op == "stop2" && !stopped {
					continue
				}
				done := make(chan struct{})
				go func() { r.Stop().Wait(); close(done) }()
				select {
				case <-done:
				case <-time.After(wait):
					own(addr, false)
					return fmt.Errorf("%w: Stop().Wait() did not return", errInconclusive)
				}
				stopped = true
				if conn, derr := stdnet.DialTimeout("tcp", addr, 2*time.Second); derr == nil {
					conn.Close()
					own(addr, false)
					return fmt.Errorf("cycle %d op %d (%v): after Stop().Wait() returned, %s still accepts connections", cy, i, c.Ops[:i+1], addr)
				}
			case "yield":
				time.Sleep(50 * time.Microsecond)
			default:
				own(addr, false)
				return nil
			}
		}
		if started && !stopped {
			r.Stop().Wait()
		}
		own(addr, false)
	}
	return nil
}

func TestRemoteLifecycle(t *testing.T) {
	st := vh.Test("TestRemoteLifecycle")
	rapid.Check(t, func(t *rapid.T) {
		c := LCase{
			Ops:    rapid.SliceOfN(rapid.SampledFrom([]string{"start", "stop", "stop", "restart", "stop2", "yield"}), 2, 6).Draw(t, "ops"),
			Cycles: rapid.SampledFrom([]int{1, 5, 25}).Draw(t, "cycles"),
		}
		c.Ops = append([]string{"start"}, c.Ops...)
		st.Begin(c)
		err := runLifecycle(c)
		if errors.Is(err, errInconclusive) || (err != nil && strings.HasPrefix(err.Error(), "harness: ")) {
			t.Fatalf("harness: %v", err)
		}
		if err != nil {
			st.Fail(c, err)
			t.Fatalf("%v", err)
		}
		immediate := len(c.Ops) > 1 && c.Ops[1] == "stop"
		lab := "stop-after-a-pause"
		if immediate {
			lab = "stop-straight-after-start"
		}
		st.Done(c, immediate || strings.Contains(strings.Join(c.Ops, " "), "restart"), lab)
	})
}

func init() {
	vh.RegisterReplay("TestRemoteLifecycle", func(raw json.RawMessage) error {
		var c LCase
		if err := json.Unmarshal(raw, &c); err != nil {
			return err
		}
		c.Cycles = max(c.Cycles, 200)
		return runLifecycle(c)
	})
}
