// C04: lifecycle protocol - Initialized, Started, messages, one final Stopped.
package c04

import (
	"testing"

	"pgregory.net/rapid"

	"verif/internal/life"
	"verif/internal/vh"
)

func TestMain(m *testing.M)   { vh.Main(m) }
func TestReplay(t *testing.T) { vh.Replay(t) }

var profile = life.Profile{
	MaxOps: 20, WSend: 6, WPanic: 4, WGate: 3, WRelease: 3, WPoison: 2, WStop: 2, WRespawn: 2, WBurst: 1,
	MaxChain: 1, MaxChildren: 0, Lifecycle: true, SpawnSends: true, MaxBudget: 4,
	// chains of more than 300 self-sends (the inbox's throughput bound) followed by gates and stop
	// requests: whatever the inbox does when it yields, Stopped stays the last thing an incarnation gets
	WChain: 3, Spins: []int{0, 0, 10, 100},
}

// non-trivial: the history contains at least one stop request and at least one crash, or
// messages were sent to the PID before Started had been handled.
func nontrivial(f life.Features) bool {
	return (f.Pills > 0 && f.Crashes > 0) || f.SpawnSends
}

func TestLifecycle(t *testing.T) {
	st := vh.Test("TestLifecycle")
	rapid.Check(t, func(t *rapid.T) {
		spec, _ := life.Normalize(life.Gen(t, profile), false)
		life.Property(t, st, spec, false, life.CheckC04, nontrivial)
	})
}

func init() {
	vh.RegisterReplay("TestLifecycle", life.Replayer(false, life.CheckC04))
}
