#!/bin/bash
# usage: tools/revert_check.sh <fix-commit> <prop>...   : un-apply one fix in /repo, run the quick checks, restore
c=$1; shift
cd /repo && git diff --quiet || { echo "/repo dirty"; exit 3; }
git show $c | git apply -R || exit 3
cd /verif
for p in "$@"; do
  ./check $p quick > /tmp/rc_$p.log 2>&1; rc=$?
  echo "$c $p rc=$rc $(grep -c VIOLATION /tmp/rc_$p.log) violation line(s) $(grep -m1 '^error:' /tmp/rc_$p.log | cut -c1-200)"
done
git -C /repo checkout -- .
