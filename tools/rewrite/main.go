// rewrite: usage  rewrite <outdir> <file.go>...
// Emits a copy of every file in which the imports of sync/atomic and of the ring buffer
// point at the yielding shims and, in files that import sync/atomic, `go f(x)` becomes
// atomic.VerifGo(func(){ f(x) }) so that worker goroutines are managed by vsched.
package main

import (
	"fmt"
	"go/ast"
	"go/parser"
	"go/printer"
	"go/token"
	"os"
	"path/filepath"
	"strconv"
)

var redirect = map[string]string{
	"sync/atomic":                            "github.com/anthdm/hollywood/verifshim/atomic",
	"sync":                                   "github.com/anthdm/hollywood/verifshim/sync",
	"github.com/anthdm/hollywood/ringbuffer": "github.com/anthdm/hollywood/verifshim/ringbuffer",
}

func main() {
	if len(os.Args) < 3 {
		fmt.Fprintln(os.Stderr, "usage: rewrite <outdir> <file.go>...")
		os.Exit(2)
	}
	outdir := os.Args[1]
	for _, path := range os.Args[2:] {
		fset := token.NewFileSet()
		f, err := parser.ParseFile(fset, path, nil, parser.ParseComments)
		if err != nil {
			fmt.Fprintln(os.Stderr, err)
			os.Exit(1)
		}
		hasAtomic := false
		for _, im := range f.Imports {
			p, _ := strconv.Unquote(im.Path.Value)
			if to, ok := redirect[p]; ok {
				if p == "sync/atomic" && im.Name == nil {
					hasAtomic = true
				}
				im.Path.Value = strconv.Quote(to)
			}
		}
		if hasAtomic {
			ast.Inspect(f, func(n ast.Node) bool {
				blk, ok := n.(*ast.BlockStmt)
				if !ok {
					return true
				}
				for i, st := range blk.List {
					if g, ok := st.(*ast.GoStmt); ok {
						blk.List[i] = &ast.ExprStmt{X: &ast.CallExpr{
							Fun: &ast.SelectorExpr{X: ast.NewIdent("atomic"), Sel: ast.NewIdent("VerifGo")},
							Args: []ast.Expr{&ast.FuncLit{
								Type: &ast.FuncType{Params: &ast.FieldList{}},
								Body: &ast.BlockStmt{List: []ast.Stmt{&ast.ExprStmt{X: g.Call}}},
							}},
						}}
					}
				}
				return true
			})
		}
		// Scheduling points at the entry of the functions that stand between a registry lookup and the
		// use of its result (lookups, unregistration, enqueueing, stop requests, clean-up): the windows
		// "looked up, then the actor went away, then used" contain no atomic operation of their own.
		if insertEntryYields(f) {
			addImport(f, "github.com/anthdm/hollywood/verifshim/vsched")
		}
		out, err := os.Create(filepath.Join(outdir, filepath.Base(path)))
		if err != nil {
			fmt.Fprintln(os.Stderr, err)
			os.Exit(1)
		}
		if err := printer.Fprint(out, fset, f); err != nil {
			fmt.Fprintln(os.Stderr, err)
			os.Exit(1)
		}
		out.Close()
	}
}

// yieldAt: receiver type -> method names ("*" = every method); "" = plain functions.
var yieldAt = map[string]map[string]bool{
	"Registry": {"*": true},
	"process":  {"Send": true, "Invoke": true, "cleanup": true, "Start": true, "tryRestart": true},
	"Engine":   {"sendPoisonPill": true, "SendLocal": true, "send": true, "BroadcastEvent": true},
}

func recvName(fd *ast.FuncDecl) string {
	if fd.Recv == nil || len(fd.Recv.List) == 0 {
		return ""
	}
	t := fd.Recv.List[0].Type
	if st, ok := t.(*ast.StarExpr); ok {
		t = st.X
	}
	if id, ok := t.(*ast.Ident); ok {
		return id.Name
	}
	return ""
}

func insertEntryYields(f *ast.File) bool {
	done := false
	for _, d := range f.Decls {
		fd, ok := d.(*ast.FuncDecl)
		if !ok || fd.Body == nil {
			continue
		}
		set := yieldAt[recvName(fd)]
		if set == nil || !(set["*"] || set[fd.Name.Name]) {
			continue
		}
		call := &ast.ExprStmt{X: &ast.CallExpr{
			Fun:  &ast.SelectorExpr{X: ast.NewIdent("vsched"), Sel: ast.NewIdent("Yield")},
			Args: []ast.Expr{&ast.BasicLit{Kind: token.STRING, Value: strconv.Quote(recvName(fd) + "." + fd.Name.Name)}},
		}}
		fd.Body.List = append([]ast.Stmt{call}, fd.Body.List...)
		done = true
	}
	return done
}

func addImport(f *ast.File, path string) {
	for _, im := range f.Imports {
		if p, _ := strconv.Unquote(im.Path.Value); p == path {
			return
		}
	}
	spec := &ast.ImportSpec{Path: &ast.BasicLit{Kind: token.STRING, Value: strconv.Quote(path)}}
	for _, d := range f.Decls {
		if gd, ok := d.(*ast.GenDecl); ok && gd.Tok == token.IMPORT {
			gd.Specs = append(gd.Specs, spec)
			if !gd.Lparen.IsValid() {
				gd.Lparen = gd.Pos()
				gd.Rparen = gd.End()
			}
			f.Imports = append(f.Imports, spec)
			return
		}
	}
	f.Decls = append([]ast.Decl{&ast.GenDecl{Tok: token.IMPORT, Specs: []ast.Spec{spec}}}, f.Decls...)
	f.Imports = append(f.Imports, spec)
}
