// rewrite: usage  rewrite <outdir> <file.go>...
// Emits a copy of every file in which the imports of sync/atomic and of the ring buffer
// point at the yielding shims and, in files that import sync/atomic, `go f(x)` becomes
// atomic.VerifGo(func(){ f(x) }) so that worker goroutines are managed by vsched.
package main

import (
	"fmt"
	"go/ast"
	"go/parser"
	"go/printer"
	"go/token"
	"os"
	"path/filepath"
	"strconv"
)

var redirect = map[string]string{
	"sync/atomic":                            "github.com/anthdm/hollywood/verifshim/atomic",
	"github.com/anthdm/hollywood/ringbuffer": "github.com/anthdm/hollywood/verifshim/ringbuffer",
}

func main() {
	if len(os.Args) < 3 {
		fmt.Fprintln(os.Stderr, "usage: rewrite <outdir> <file.go>...")
		os.Exit(2)
	}
	outdir := os.Args[1]
	for _, path := range os.Args[2:] {
		fset := token.NewFileSet()
		f, err := parser.ParseFile(fset, path, nil, parser.ParseComments)
		if err != nil {
			fmt.Fprintln(os.Stderr, err)
			os.Exit(1)
		}
		hasAtomic := false
		for _, im := range f.Imports {
			p, _ := strconv.Unquote(im.Path.Value)
			if to, ok := redirect[p]; ok {
				if p == "sync/atomic" && im.Name == nil {
					hasAtomic = true
				}
				im.Path.Value = strconv.Quote(to)
			}
		}
		if hasAtomic {
			ast.Inspect(f, func(n ast.Node) bool {
				blk, ok := n.(*ast.BlockStmt)
				if !ok {
					return true
				}
				for i, st := range blk.List {
					if g, ok := st.(*ast.GoStmt); ok {
						blk.List[i] = &ast.ExprStmt{X: &ast.CallExpr{
							Fun: &ast.SelectorExpr{X: ast.NewIdent("atomic"), Sel: ast.NewIdent("VerifGo")},
							Args: []ast.Expr{&ast.FuncLit{
								Type: &ast.FuncType{Params: &ast.FieldList{}},
								Body: &ast.BlockStmt{List: []ast.Stmt{&ast.ExprStmt{X: g.Call}}},
							}},
						}}
					}
				}
				return true
			})
		}
		out, err := os.Create(filepath.Join(outdir, filepath.Base(path)))
		if err != nil {
			fmt.Fprintln(os.Stderr, err)
			os.Exit(1)
		}
		if err := printer.Fprint(out, fset, f); err != nil {
			fmt.Fprintln(os.Stderr, err)
			os.Exit(1)
		}
		out.Close()
	}
}
