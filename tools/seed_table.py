#!/usr/bin/env python3
"""Print the DESIGN.md table of seeded changes from seeded/*/meta.json."""
import json, glob, os
rows = []
for p in sorted(glob.glob(os.path.join(os.path.dirname(os.path.dirname(os.path.abspath(__file__))), "seeded", "*", "meta.json"))):
    m = json.load(open(p))
    runs = m.get("checks_run_against_it", [])
    det = "; ".join("%s: %s (%.0f s)" % (r["check"].replace("./check ", ""), r["verdict"], r["wall_s"]) for r in runs)
    h = (m.get("history") or [""])[0]
    first = "caught as written"
    if m.get("superseded"):
        det = "n/a"
    if h.startswith("NOT CAUGHT"):
        first = "NOT caught (stated limit)"
    elif h:
        first = "missed / inconclusive at first, caught after strengthening"
    s = (m.get("summary") or "").replace("|", "/").replace("\n", " ")
    if len(s) > 170:
        s = s[:167] + "..."
    if m.get("superseded"):
        first += "; SUPERSEDED since: " + m["superseded"].split(":")[1].strip().split(",")[0]
    rows.append("| %s | %s | %s | %s |" % (m["id"], s, det, first))
print("| id | change (author's summary) | own property's check, final harness | first contact |")
print("|---|---|---|---|")
print("\n".join(rows))
