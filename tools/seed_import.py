#!/usr/bin/env python3
"""Import a confirmed seeded change into /verif/seeded/<id>/.

  tools/seed_import.py <src dir with patch.diff demo_test.go meta.json> <id> <verify.json> <check.jsonl>...

meta.json of the result = what the author of the change said (property, what it needs to manifest) +
what was confirmed here (scratch worktree of /repo HEAD: applies, builds, repository suite green, demo red
with / green without) + which checks were run against it and what they said.
"""
import json, os, shutil, subprocess, sys, time

VERIF = os.path.dirname(os.path.dirname(os.path.abspath(__file__)))


def main():
    src, sid, vfile = sys.argv[1], sys.argv[2], sys.argv[3]
    checks = sys.argv[4:]
    dst = os.path.join(VERIF, "seeded", sid)
    os.makedirs(dst, exist_ok=True)
    shutil.copy(os.path.join(src, "patch.diff"), os.path.join(dst, "patch.diff"))
    if os.path.exists(os.path.join(src, "patch.orig.diff")):
        shutil.copy(os.path.join(src, "patch.orig.diff"), os.path.join(dst, "patch.as-written.diff"))
    shutil.copy(os.path.join(src, "demo_test.go"), os.path.join(dst, "demo_test.go"))
    author = json.load(open(os.path.join(src, "meta.json")))
    v = json.loads(open(vfile).read().strip().splitlines()[-1])
    head = subprocess.run(["git", "-C", "/repo", "rev-parse", "--short", "HEAD"], capture_output=True, text=True).stdout.strip()
    runs = []
    for c in checks:
        for line in open(c).read().splitlines():
            if line.startswith("{"):
                r = json.loads(line)
                runs.append({"check": "./check %s %s" % (r["property"], r["tier"]), "exit": r["rc"], "wall_s": r["wall_s"],
                             "verdict": "VIOLATION" if r["rc"] == 1 else ("silent" if r["rc"] == 0 else "inconclusive"),
                             "message": r["error"] or r["inconclusive"]})
    old = {}
    if os.path.exists(os.path.join(dst, "meta.json")):
        old = json.load(open(os.path.join(dst, "meta.json")))
    meta = {
        "id": sid,
        "property": author.get("property"),
        "summary": author.get("summary"),
        "needs_to_manifest": author.get("needs"),
        "why_the_suite_passes": author.get("why_suite_passes"),
        "written_by": "independent sub-agent given only the property text and a scratch worktree (no access to /verif)",
        "patch_note": ("patch.diff is the change re-applied to the current /repo HEAD (the fix: commits of round 3 touched the same "
                       "lines); patch.as-written.diff is the author's diff against 1150570") if os.path.exists(os.path.join(src, "patch.orig.diff")) else
                      "patch.diff applies to /repo HEAD with git apply",
        "confirmed_here": {
            "repo_head": head,
            "how": "tools/seedrun.py verify: scratch worktree of /repo HEAD (removed afterwards); suite and demo run in a private network namespace",
            "applies_and_builds": bool(v.get("applies") and v.get("builds")),
            "suite_with_change": {"runs": len(v.get("suite_failures") or []), "failures_per_run": v.get("suite_failures"),
                                  "note": "TestGetActiveByID / TestGetActiveByKind (mDNS timing), TestMemberLeave and the 1 ms deadline of "
                                          "TestInboxSendAndProcess also fail occasionally on the unchanged tree under load (DESIGN 3a)"},
            "demo_without_change": "passes" if v.get("demo_passes_without_change") else "FAILS",
            "demo_with_change": "fails %s" % v.get("demo_fails_with_change"),
            "demo_failure": (v.get("demo_fail_tail") or "")[-400:],
        },
        "demo": "demo_test.go (first two lines: where to place it and how to run it)",
        "checks_run_against_it": runs or old.get("checks_run_against_it", []),
        "history": old.get("history", []),
    }
    json.dump(meta, open(os.path.join(dst, "meta.json"), "w"), indent=1)
    print(sid, meta["confirmed_here"]["applies_and_builds"], meta["confirmed_here"]["demo_with_change"], [r["verdict"] for r in runs])


if __name__ == "__main__":
    main()
