#!/usr/bin/env python3
"""Sensitivity runs against seeded changes, never touching /repo's working tree.

  tools/seedrun.py verify <dir>             dir holds patch.diff + demo_test.go: confirm (scratch worktree) that the
                                            patch applies and builds, the repo's own suite passes with it, the demo fails
                                            with it and passes without it.  Prints one JSON line.
  tools/seedrun.py check <patch.diff> <Cxx>[,<Cyy>...] [quick|thorough]
                                            run the named checks against a scratch worktree with the patch applied
                                            (VERIF_REPO=<worktree>; evidence/replays go to build/alt-out, not evidence/).

Every scratch worktree is removed again (git worktree remove --force) together with its build output.
"""
import json, os, re, subprocess, sys, tempfile, shutil, time

VERIF = os.path.dirname(os.path.dirname(os.path.abspath(__file__)))
ENV = dict(os.environ, GOFLAGS="-mod=mod", GOPROXY="off", GOSUMDB="off", GOTOOLCHAIN="local")
FLAKY = ("TestGetActiveByID", "TestGetActiveByKind")   # timing dependent on the unchanged tree as well (DESIGN 3a)


NS = """ip link set lo up; ip link set lo multicast on; ip route add 224.0.0.0/4 dev lo 2>/dev/null; exec "$@" """


def netns(cmd):
    """run cmd (list or shell string) in a private network namespace: the repository's cluster tests
    discover every hollywood node on the box over mDNS and use fixed ports, so concurrent runs of the
    suite disturb each other (DESIGN 3a)"""
    if isinstance(cmd, str):
        cmd = ["sh", "-c", cmd]
    return ["unshare", "-n", "sh", "-c", NS, "sh"] + cmd


def sh(cmd, cwd, timeout=900, env=ENV):
    try:
        p = subprocess.run(cmd, cwd=cwd, env=env, text=True, errors="replace", stdout=subprocess.PIPE,
                           stderr=subprocess.STDOUT, timeout=timeout, shell=isinstance(cmd, str))
        return p.returncode, p.stdout
    except subprocess.TimeoutExpired as e:
        return -9, (e.stdout or b"").decode(errors="replace") if isinstance(e.stdout, bytes) else (e.stdout or "")


def worktree():
    d = tempfile.mkdtemp(prefix="hw-seed-", dir="/tmp")
    os.rmdir(d)
    rc, out = sh(["git", "-C", "/repo", "worktree", "add", "--detach", d, "HEAD"], "/")
    if rc != 0:
        sys.exit("cannot create worktree: " + out)
    return d


def drop(d):
    sh(["git", "-C", "/repo", "worktree", "remove", "--force", d], "/")
    shutil.rmtree(d, ignore_errors=True)
    sh(["git", "-C", "/repo", "worktree", "prune"], "/")


def suite(wt):
    """the repository's own suite; returns (ok, failing test names)"""
    rc, out = sh(netns(["go", "test", "-vet=off", "-count=1", "-timeout", "10m", "./..."]), wt)
    failed = set(re.findall(r"^--- FAIL: (\S+)", out, re.M))
    hard = {f for f in failed if f.split("/")[0] not in FLAKY}
    if rc != 0 and not failed:
        hard.add("build-or-crash: " + out[-400:])
    sh(["git", "checkout", "--", "go.sum"], wt)
    return not hard, sorted(hard)


def demo(wt, ddir):
    src = open(os.path.join(ddir, "demo_test.go")).read()
    m1 = re.search(r"^// place at:\s*(\S+)", src, re.M)
    m2 = re.search(r"^// run:\s*(.+)$", src, re.M)
    if not (m1 and m2):
        return None, "demo header missing"
    dst = os.path.join(wt, m1.group(1))
    shutil.copy(os.path.join(ddir, "demo_test.go"), dst)
    cmd = m2.group(1).strip()
    cmd = re.sub(r"^cd \S+ && ", "", cmd)
    rc, out = sh(netns(cmd), wt, timeout=900)
    os.remove(dst)
    sh(["git", "checkout", "--", "go.sum"], wt)
    return rc == 0, out[-1500:]


def verify(ddir):
    ddir = os.path.abspath(ddir)
    wt = worktree()
    res = {"dir": ddir}
    try:
        ok0, out0 = demo(wt, ddir)
        res["demo_passes_without_change"] = ok0
        rc, out = sh(["git", "apply", os.path.join(ddir, "patch.diff")], wt)
        if rc != 0:
            rc, out = sh(["git", "apply", "-3", os.path.join(ddir, "patch.diff")], wt)
            sh(["git", "reset", "-q"], wt)
            res["applied_3way"] = True
        res["applies"] = rc == 0
        if rc != 0:
            res["error"] = out
            return res
        rc, out = sh(["git", "diff", "--stat"], wt)
        res["touches"] = [l.split("|")[0].strip() for l in out.splitlines() if "|" in l]
        rc, out = sh("go build ./... && go test -vet=off -count=1 -run '^$' ./...", wt)
        res["builds"] = rc == 0
        runs = []
        for _ in range(int(os.environ.get("SUITE_RUNS", "2"))):
            ok, hard = suite(wt)
            runs.append(hard)
        res["suite_passes_with_change"] = all(not h for h in runs)
        res["suite_failures"] = runs
        fails = 0
        n = int(os.environ.get("DEMO_RUNS", "3"))
        last = ""
        for _ in range(n):
            ok1, out1 = demo(wt, ddir)
            if ok1 is False:
                fails += 1
                last = out1
        res["demo_fails_with_change"] = "%d/%d" % (fails, n)
        res["demo_fail_tail"] = last[-600:]
        if ok0 is False:
            res["demo_without_tail"] = out0[-600:]
    finally:
        drop(wt)
    return res


def check(patch, props, tier):
    patch = os.path.abspath(patch)
    wt = worktree()
    rows = []
    try:
        rc, out = sh(["git", "apply", patch], wt)
        if rc != 0:
            rc, out = sh(["git", "apply", "-3", patch], wt)
            sh(["git", "reset", "-q"], wt)
        if rc != 0:
            sys.exit("patch does not apply: " + out)
        env = dict(ENV, VERIF_REPO=wt)
        for p in props:
            t0 = time.time()
            rc, out = sh([os.path.join(VERIF, "check"), p, tier], VERIF, timeout=7200, env=env)
            err = re.search(r"^error: (.*)$", out, re.M)
            inc = re.search(r"^INCONCLUSIVE.*$", out, re.M)
            rows.append({"property": p, "tier": tier, "rc": rc, "wall_s": round(time.time() - t0, 1),
                         "error": (err.group(1)[:300] if err else ""), "inconclusive": (inc.group(0)[:200] if inc else ""),
                         "violation_lines": re.findall(r"^VIOLATION .*$", out, re.M)[:3]})
            log = os.path.join(VERIF, "build", "alt-out", "log-%s-%s.txt" % (os.path.basename(os.path.dirname(patch)) or "p", p))
            os.makedirs(os.path.dirname(log), exist_ok=True)
            open(log, "w").write(out)
    finally:
        drop(wt)
    return rows


if __name__ == "__main__":
    a = sys.argv[1:]
    if len(a) >= 2 and a[0] == "verify":
        print(json.dumps(verify(a[1])))
    elif len(a) >= 3 and a[0] == "check":
        for r in check(a[1], a[2].split(","), a[3] if len(a) > 3 else "quick"):
            print(json.dumps(r))
    else:
        sys.exit(__doc__)
