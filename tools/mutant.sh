#!/bin/bash
# usage: tools/mutant.sh <patch.diff> <prop>...  : apply a mutant to /repo, run quick checks, restore
d=$(realpath $1); shift
cd /repo && git diff --quiet || { echo "/repo dirty"; exit 3; }
git apply $d || exit 3
cd /verif
for p in "$@"; do
  ./check $p ${TIER:-quick} > /tmp/mu_$p.log 2>&1; rc=$?
  echo "$(basename $d) $p rc=$rc :: $(grep -m1 '^error:' /tmp/mu_$p.log | cut -c1-220) $(grep -m1 INCONCLUSIVE /tmp/mu_$p.log | cut -c1-150)"
done
git -C /repo checkout -- .
