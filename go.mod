module verif

go 1.23

require (
	github.com/anishathalye/porcupine v1.3.0
	github.com/anthdm/hollywood v0.0.0
	pgregory.net/rapid v1.3.0
)

require (
	github.com/DataDog/gostackparse v0.7.0 // indirect
	github.com/klauspost/cpuid/v2 v2.0.9 // indirect
	github.com/zeebo/xxh3 v1.0.2 // indirect
	google.golang.org/protobuf v1.32.0 // indirect
)

replace github.com/anthdm/hollywood => /repo
