module verif

go 1.23

require (
	github.com/anishathalye/porcupine v1.3.0
	github.com/anthdm/hollywood v0.0.0
	pgregory.net/rapid v1.3.0
)

replace github.com/anthdm/hollywood => /repo
