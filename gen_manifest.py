#!/usr/bin/env python3
"""Regenerates MANIFEST.json from legs.py (single source of truth for what is claimed)."""
import json, os, sys
sys.path.insert(0, os.path.dirname(os.path.abspath(__file__)))
from legs import PROPS, NA_REASONS
NOT_APPLICABLE = [{"property_id": p, "reason": NA_REASONS.get(p, "check under construction in this session - not yet claimed")}
                  for p in ["C%02d" % i for i in range(1, 21)] if p not in PROPS]

BASE = open("/root/.vp/BASELINE.json").read()
baseline_cmd = json.loads(BASE)["cmd"]
checks = []
for pid in sorted(PROPS):
    p = PROPS[pid]
    checks.append({
        "property_id": pid,
        "quick_cmd": "./check %s quick" % pid,
        "thorough_cmd": "./check %s thorough" % pid,
        "evidence_file": "/verif/evidence/%s.json" % pid,
        "replay_cmd_template": "./check --replay {path}",
        "engine": p.get("engine", "rapid-pbt"),
        "level_claimed": {"category": p["level"], "text": p["level_text"], "design_ref": p.get("design_ref", "DESIGN.md section 3, " + pid)},
        "level_note": p["level_note"],
        "technique": p["technique"],
    })
m = {
    "version": 1,
    "setup_cmd": "./check --setup",
    "hooks": {
        "guard": "verif",
        "enable": "go test -tags verif -overlay <generated overlay.json> (build-time injection from /verif/shim; no file in /repo carries a hook)",
        "baseline_off_cmd": baseline_cmd,
        "source_commits": [],
        "add_only": True,
    },
    "engines": [
        {"name": "rapid-pbt", "path": "/verif/props", "serves_properties": sorted(PROPS),
         "kind_free_text": "pgregory.net/rapid v1.3.0 property tests + go native fuzzing + bounded enumeration, explicit oracles, JSON replay files"},
        {"name": "vsched", "path": "/verif/shim/vsched", "serves_properties": [p for p in sorted(PROPS) if PROPS[p].get("uses_vsched")],
         "kind_free_text": "harness-owned cooperative scheduler injected into package actor by go/ast rewriting at build time: the interleaving is a generated, shrinkable value"},
    ],
    "checks": checks,
    "not_applicable": NOT_APPLICABLE,
    "notes": "All checks are property-based tests / fuzzers with explicit oracles. Exit 2 = inconclusive (build failure, timeout); never reported as a violation.",
}
json.dump(m, open(os.path.join(os.path.dirname(os.path.abspath(__file__)), "MANIFEST.json"), "w"), indent=1)
print("MANIFEST.json: %d checks, %d not applicable" % (len(checks), len(NOT_APPLICABLE)))
