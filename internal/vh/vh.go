// Package vh is the harness library shared by every property package:
// case journal, evidence counters, replay files, known-findings lookup.
//
// Every random choice of a case is made by rapid in the property's generator;
// nothing in here draws randomness, reads the clock for decisions or depends on
// map iteration order.
package vh

import (
	"encoding/binary"
	"encoding/json"
	"fmt"
	"hash/fnv"
	"io"
	"log/slog"
	"os"
	"sort"
	"sync"
	"testing"
)

// Environment (set by /verif/check):
//
//	VERIF_STATS       file the counters are written to when the test binary exits
//	VERIF_REPLAY_OUT  file a failing case is written to (smallest failing case wins)
//	VERIF_JOURNAL     file holding the case that is currently executing
//	VERIF_REPLAY_FILE replay file to execute in TestReplay
//	VERIF_KNOWN       path of known_findings.json
//	VERIF_PROPERTY    property id
const maxSampleBytes = 3000

type sample struct {
	hash uint64
	raw  json.RawMessage
}

// T collects the counters of one test (one leg of a property).
type T struct {
	mu        sync.Mutex
	name      string
	evals     int
	nt        int
	ntSet     map[uint64]struct{}
	labels    map[string]int
	excluded  map[string]int
	samples   []sample // up to 4 nontrivial cases with the smallest hashes
	first     *sample
	failed    int
	bestFail  int // length of smallest failing case written so far
	noJournal bool
	extra     map[string]any
}

var (
	regMu   sync.Mutex
	tests   = map[string]*T{}
	replays = map[string]func(json.RawMessage) error{}
	journal *os.File
)

// Test returns (creating it on first use) the counter set for a named test.
func Test(name string) *T {
	regMu.Lock()
	defer regMu.Unlock()
	if t, ok := tests[name]; ok {
		return t
	}
	t := &T{name: name, ntSet: map[uint64]struct{}{}, labels: map[string]int{}, excluded: map[string]int{}, extra: map[string]any{}}
	tests[name] = t
	return t
}

// NoJournal switches the per-case journal off for very cheap, very numerous cases
// whose execution cannot kill the process.
func (s *T) NoJournal() *T { s.noJournal = true; return s }

func canon(c any) []byte {
	b, err := json.Marshal(c)
	if err != nil {
		panic("harness: case not serialisable: " + err.Error())
	}
	return b
}

func hashOf(b []byte) uint64 {
	h := fnv.New64a()
	h.Write(b)
	return h.Sum64()
}

// Begin journals the case that is about to run, so that the driver can recover it
// as the replay file if the process dies.
func (s *T) Begin(c any) {
	if s.noJournal || journal == nil {
		return
	}
	b := canon(map[string]any{"property": os.Getenv("VERIF_PROPERTY"), "test": s.name, "case": c, "error": "process died while this case was executing"})
	regMu.Lock()
	journal.Truncate(0)
	journal.WriteAt(b, 0)
	regMu.Unlock()
}

// Done counts one executed case. nontrivial is the property's stated rule evaluated
// on what the case actually did; labels feed the distribution histogram.
func (s *T) Done(c any, nontrivial bool, labels ...string) {
	b := canon(c)
	h := hashOf(b)
	s.mu.Lock()
	defer s.mu.Unlock()
	s.evals++
	for _, l := range labels {
		if l != "" {
			s.labels[l]++
		}
	}
	if s.first == nil {
		s.first = &sample{h, trunc(b)}
	}
	if !nontrivial {
		return
	}
	s.nt++
	if _, dup := s.ntSet[h]; dup {
		return
	}
	s.ntSet[h] = struct{}{}
	if len(s.samples) < 4 || h < s.samples[len(s.samples)-1].hash {
		s.samples = append(s.samples, sample{h, trunc(b)})
		sort.Slice(s.samples, func(i, j int) bool { return s.samples[i].hash < s.samples[j].hash })
		if len(s.samples) > 4 {
			s.samples = s.samples[:4]
		}
	}
}

func trunc(b []byte) json.RawMessage {
	if len(b) <= maxSampleBytes {
		return append(json.RawMessage(nil), b...)
	}
	q, _ := json.Marshal(string(b[:maxSampleBytes]) + fmt.Sprintf("...(%d bytes truncated)", len(b)-maxSampleBytes))
	return q
}

// Exclude counts a candidate shape that the generator kept out by construction
// because it is covered by an open known finding.
func (s *T) Exclude(label string) {
	s.mu.Lock()
	s.excluded[label]++
	s.mu.Unlock()
}

// Label adds to the histogram without counting a case.
func (s *T) Label(label string, n int) {
	s.mu.Lock()
	s.labels[label] += n
	s.mu.Unlock()
}

// Set records an extra key for the evidence file (e.g. exhaustive: true).
func (s *T) Set(key string, v any) {
	s.mu.Lock()
	s.extra[key] = v
	s.mu.Unlock()
}

// Fail records a failing case as replay file. The smallest failing case seen by
// this process wins, so after rapid has shrunk the file holds the minimal case.
func (s *T) Fail(c any, err error) {
	s.mu.Lock()
	defer s.mu.Unlock()
	s.failed++
	out := os.Getenv("VERIF_REPLAY_OUT")
	if out == "" {
		return
	}
	b := canon(c)
	if s.bestFail != 0 && len(b) >= s.bestFail {
		return
	}
	s.bestFail = len(b)
	doc := canon(map[string]any{"property": os.Getenv("VERIF_PROPERTY"), "test": s.name, "case": json.RawMessage(b), "error": err.Error()})
	os.WriteFile(out, doc, 0o644)
}

// Failed reports how many failing cases this test has recorded so far (> 0 means the
// generator library is shrinking).
func (s *T) Failed() int {
	s.mu.Lock()
	defer s.mu.Unlock()
	return s.failed
}

// RegisterReplay associates a test name with a function that runs one
// serialised case, bypassing the generator library.
func RegisterReplay(test string, fn func(json.RawMessage) error) {
	regMu.Lock()
	replays[test] = fn
	regMu.Unlock()
}

// Replay executes VERIF_REPLAY_FILE. Every property package has
// `func TestReplay(t *testing.T) { vh.Replay(t) }`.
func Replay(t *testing.T) {
	path := os.Getenv("VERIF_REPLAY_FILE")
	if path == "" {
		t.Skip("no VERIF_REPLAY_FILE")
	}
	raw, err := os.ReadFile(path)
	if err != nil {
		t.Fatalf("harness: %v", err)
	}
	var doc struct {
		Test string          `json:"test"`
		Case json.RawMessage `json:"case"`
	}
	if err := json.Unmarshal(raw, &doc); err != nil {
		t.Fatalf("harness: bad replay file: %v", err)
	}
	fn, ok := replays[doc.Test]
	if !ok {
		t.Fatalf("harness: no replay function for test %q in this package", doc.Test)
	}
	n := 1
	if v := os.Getenv("VERIF_REPLAY_TIMES"); v != "" {
		fmt.Sscan(v, &n)
	}
	for i := 0; i < n; i++ {
		if err := fn(doc.Case); err != nil {
			fmt.Printf("REPLAY-FAIL %s: %v\n", doc.Test, err)
			t.Fatalf("replayed case fails: %v", err)
		}
	}
	fmt.Printf("REPLAY-PASS %s (%d run(s))\n", doc.Test, n)
}

// Main is called from every package's TestMain.
func Main(m *testing.M) {
	slog.SetDefault(slog.New(slog.NewTextHandler(io.Discard, nil)))
	if p := os.Getenv("VERIF_JOURNAL"); p != "" {
		journal, _ = os.OpenFile(p, os.O_CREATE|os.O_RDWR|os.O_TRUNC, 0o644)
	}
	loadKnown()
	code := m.Run()
	Flush()
	os.Exit(code)
}

// Flush writes the counters.
func Flush() {
	p := os.Getenv("VERIF_STATS")
	if p == "" {
		return
	}
	regMu.Lock()
	defer regMu.Unlock()
	type tj struct {
		Evaluations int               `json:"evaluations"`
		Nontrivial  int               `json:"nontrivial"`
		Distinct    int               `json:"distinct_nontrivial"`
		Labels      map[string]int    `json:"labels"`
		Excluded    map[string]int    `json:"excluded"`
		Samples     []json.RawMessage `json:"samples"`
		Failed      int               `json:"failed"`
		Extra       map[string]any    `json:"extra"`
	}
	out := map[string]tj{}
	hf, _ := os.Create(p + ".hashes")
	for name, s := range tests {
		s.mu.Lock()
		j := tj{Evaluations: s.evals, Nontrivial: s.nt, Distinct: len(s.ntSet), Labels: s.labels, Excluded: s.excluded, Failed: s.failed, Extra: s.extra}
		for _, sm := range s.samples {
			j.Samples = append(j.Samples, sm.raw)
		}
		if len(j.Samples) == 0 && s.first != nil {
			j.Samples = append(j.Samples, s.first.raw)
		}
		if hf != nil {
			// name-length, name, count, hashes
			var hdr [8]byte
			binary.LittleEndian.PutUint32(hdr[:4], uint32(len(name)))
			binary.LittleEndian.PutUint32(hdr[4:], uint32(len(s.ntSet)))
			hf.Write(hdr[:])
			hf.WriteString(name)
			buf := make([]byte, 0, 8*len(s.ntSet))
			for h := range s.ntSet {
				buf = binary.LittleEndian.AppendUint64(buf, h)
			}
			hf.Write(buf)
		}
		out[name] = j
		s.mu.Unlock()
	}
	if hf != nil {
		hf.Close()
	}
	b, _ := json.MarshalIndent(out, "", " ")
	os.WriteFile(p, b, 0o644)
}

// ---- known findings ---------------------------------------------------------

type Finding struct {
	ID       string `json:"id"`
	Property string `json:"property"`
	Status   string `json:"status"` // "open" | "fixed"
	Commit   string `json:"commit,omitempty"`
	What     string `json:"what"`
	Shape    string `json:"shape,omitempty"`
}

var known = map[string]Finding{}

func loadKnown() {
	p := os.Getenv("VERIF_KNOWN")
	if p == "" {
		return
	}
	raw, err := os.ReadFile(p)
	if err != nil {
		return
	}
	var doc struct {
		Findings []Finding `json:"findings"`
	}
	if json.Unmarshal(raw, &doc) != nil {
		return
	}
	for _, f := range doc.Findings {
		known[f.ID+"/"+f.Property] = f
	}
}

// Open reports whether finding id is listed as open for the property; generators
// keep the shape of an open finding out by construction.
func Open(id, property string) bool {
	f, ok := known[id+"/"+property]
	return ok && f.Status == "open"
}

// KnownFinding prints the line the interface asks for.
func KnownFinding(id, property string) {
	f := known[id+"/"+property]
	fmt.Printf("KNOWN-FINDING: property=%s %s: %s\n", property, id, f.What)
}

// Note prints an informational line the driver relays.
func Note(format string, a ...any) { fmt.Printf("NOTE: "+format+"\n", a...) }

// Tier is the tier the driver runs ("quick" unless told otherwise).
func Tier() string {
	if t := os.Getenv("VERIF_TIER"); t != "" {
		return t
	}
	return "quick"
}

// Seed is VERIF_SEED (0 and garbage are remapped to 1), for legs that do not go through rapid.
func Seed() int {
	n := 0
	fmt.Sscan(os.Getenv("VERIF_SEED"), &n)
	if n <= 0 {
		n = 1
	}
	return n
}
