package vh
