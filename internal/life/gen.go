package life

import (
	"pgregory.net/rapid"
)

// Profile tunes the generator for the property that uses it.
type Profile struct {
	MaxOps      int
	WSend       int // weights of op kinds
	WPanic      int
	WGate       int
	WRelease    int
	WPoison     int
	WStop       int
	WRespawn    int
	WBurst      int
	MaxChain    int
	MaxChildren int
	Replies     bool // the receiver may answer messages with Context.Respond
	Lifecycle   bool // planned panics in Initialized / Started
	SpawnSends  bool
	MaxBudget   int
	BigBurst    bool  // allow bursts > 4096 (crossing the batch size)
	Spins       []int // choices for Spec.Spin (nil = never spin)
	WChain      int   // weight of "chain" sends (the receiver feeds itself: many consecutive one-message batches)
}

// Gen draws a raw history; Normalize makes it executable.
func Gen(t *rapid.T, p Profile) Spec {
	s := Spec{
		InboxSize:   rapid.SampledFrom([]int{0, 1, 1, 2, 3, 4, 8}).Draw(t, "inbox"),
		MaxRestarts: rapid.IntRange(0, p.MaxBudget).Draw(t, "budget"),
		Chain:       rapid.IntRange(0, p.MaxChain).Draw(t, "chain"),
	}
	if s.Chain >= 1 {
		s.EmptyMW = rapid.IntRange(0, 3).Draw(t, "empty_mw") == 0
	}
	if s.Chain >= 2 {
		s.Split = rapid.IntRange(0, s.Chain-1).Draw(t, "split")
	}
	s.SpawnCtx = rapid.SampledFrom([]string{"", "", "live", "cancelled"}).Draw(t, "spawn_ctx")
	if len(p.Spins) > 0 {
		s.Spin = rapid.SampledFrom(p.Spins).Draw(t, "spin")
	}
	if p.Replies {
		s.Replies = rapid.Bool().Draw(t, "replies")
	}
	if p.MaxChildren > 0 {
		s.Children = rapid.IntRange(0, p.MaxChildren).Draw(t, "children")
		if s.Children > 0 {
			s.RespawnKids = rapid.Bool().Draw(t, "respawn_kids")
			s.KidSwap = rapid.Bool().Draw(t, "kid_swap")
		}
	}
	if p.Lifecycle {
		s.InitPanics = rapid.SliceOfNDistinct(rapid.IntRange(1, 6), 0, 2, rapid.ID[int]).Draw(t, "init_panics")
		s.StartPanics = rapid.SliceOfNDistinct(rapid.IntRange(1, 6), 0, 2, rapid.ID[int]).Draw(t, "start_panics")
	}
	if p.SpawnSends {
		s.InitSends = rapid.IntRange(0, 3).Draw(t, "init_sends")
		s.SpawnSends = rapid.IntRange(0, 3).Draw(t, "spawn_sends")
	}
	kinds := []string{}
	add := func(k string, w int) {
		for i := 0; i < w; i++ {
			kinds = append(kinds, k)
		}
	}
	add("send", p.WSend)
	add("panic", p.WPanic)
	add("gate", p.WGate)
	add("release", p.WRelease)
	add("poison", p.WPoison)
	add("stop", p.WStop)
	add("respawn", p.WRespawn)
	add("burst", p.WBurst)
	add("chain", p.WChain)
	n := rapid.IntRange(1, p.MaxOps).Draw(t, "nops")
	for i := 0; i < n; i++ {
		k := rapid.SampledFrom(kinds).Draw(t, "op")
		switch k {
		case "send":
			s.Ops = append(s.Ops, Op{K: "send", From: rapid.IntRange(0, 3).Draw(t, "from")})
		case "panic":
			s.Ops = append(s.Ops, Op{K: "send", Panic: true, GateNext: rapid.IntRange(0, 3).Draw(t, "gate_next") == 0, From: rapid.IntRange(0, 3).Draw(t, "from"),
				Internal: rapid.IntRange(0, 5).Draw(t, "internal") == 0,
				PanicVal: rapid.SampledFrom([]int{0, 0, 1, 2, 2, 3, 4, 5, 6}).Draw(t, "panic_val")})
		case "chain":
			s.Ops = append(s.Ops, Op{K: "send", Chain: rapid.SampledFrom([]int{3, 40, 305, 330}).Draw(t, "chain"), From: rapid.IntRange(0, 3).Draw(t, "from")})
		case "burst":
			max := 40
			if p.BigBurst && rapid.IntRange(0, 7).Draw(t, "big") == 0 {
				max = 9000
			}
			s.Ops = append(s.Ops, Op{K: "send", N: rapid.IntRange(2, max).Draw(t, "n")})
		default:
			s.Ops = append(s.Ops, Op{K: k})
		}
	}
	return s
}

// Normalize turns a raw history into an executable one: it assigns message ids, drops
// ops that are impossible in the state the model is in (release without gate, gate
// while gated or dead, respawn while alive), releases a gate left open at the end, and
// - while finding F7 is open - removes the Stop/Poison calls whose context the engine
// is known never to complete ("orphans"), counting them.
func Normalize(raw Spec, dropOrphans bool) (Spec, int) {
	excluded := 0
	ops := append([]Op(nil), raw.Ops...)
	for {
		out := raw
		out.Ops = nil
		sim := NewSim(raw)
		sim.Spawn(true)
		next := 1
		for _, op := range ops {
			switch op.K {
			case "send":
				op.ID = next
				if op.N > 1 {
					op.Panic, op.GateNext, op.Internal = false, false, false
					op.Chain = 0
					next += op.N
				} else {
					op.N = 0
					if op.Panic {
						op.Chain = 0
					}
					next += 1 + op.Chain
				}
				if !op.Panic {
					op.GateNext, op.Internal, op.PanicVal = false, false, 0
				}
				sim.Send(op)
			case "gate":
				if sim.Gated || !sim.Alive {
					continue
				}
				sim.SendGate()
			case "release":
				if !sim.Gated {
					continue
				}
				sim.Release()
			case "poison", "stop":
				p := sim.SendPill(op.K == "poison")
				p.OpIdx = len(out.Ops)
			case "respawn":
				if sim.Alive || sim.Gated {
					continue
				}
				sim.Spawn(false)
			default:
				continue
			}
			out.Ops = append(out.Ops, op)
		}
		for sim.Gated {
			sim.Release()
			out.Ops = append(out.Ops, Op{K: "release"})
		}
		orphan := -1
		if dropOrphans {
			for _, p := range sim.Pills {
				if p.Fate == "orphan" {
					orphan = p.OpIdx
					break
				}
			}
		}
		if orphan < 0 {
			return out, excluded
		}
		excluded++
		ops = append(append([]Op(nil), out.Ops[:orphan]...), out.Ops[orphan+1:]...)
	}
}

// Predict runs the model alone (no engine) over a normalised history.
func Predict(spec Spec) *Sim {
	sim := NewSim(spec)
	sim.Spawn(true)
	for _, op := range spec.Ops {
		switch op.K {
		case "send":
			sim.Send(op)
		case "gate":
			sim.SendGate()
		case "release":
			sim.Release()
		case "poison", "stop":
			sim.SendPill(op.K == "poison")
		case "respawn":
			sim.Spawn(false)
		}
	}
	return sim
}
