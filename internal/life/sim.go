// Package life runs generated histories of ONE supervised actor on the real engine and
// predicts, with a small reference model, what the actor's receivers, the event stream
// and the Stop/Poison contexts must show.  It serves C04, C05, C06, C07 and C13, each of
// which applies its own oracle to the same observation.
//
// The driver goroutine is the only sender, and it uses gates (a receiver that blocks in
// Receive on a harness channel) to decide what is queued together, so the batch geometry
// is a generated input and the reference model is exact.  Where the real engine leaves
// freedom (messages sent after an un-gated graceful pill) the model says "may".
package life

import "fmt"

const BatchSize = 4096 // messageBatchSize of actor/inbox.go; only matters for > 4096 queued messages

// Op is one step of the driver goroutine.
type Op struct {
	K        string `json:"k"`                   // send | gate | release | poison | stop | sync | respawn
	ID       int    `json:"id,omitempty"`        // message id (send), assigned by Normalize
	Panic    bool   `json:"panic,omitempty"`     // (send) Receive panics on this message
	Internal bool   `json:"internal,omitempty"`  // (send+panic) the panic value is an *actor.InternalError: restart without touching the budget
	PanicVal int    `json:"panic_val,omitempty"` // (send+panic) what is thrown: 0 string, 1 error, 2 []string, 3 map, 4 struct holding a slice, 5 nil
	GateNext bool   `json:"gate_next,omitempty"` // (send+panic) the next incarnation blocks in Started until `release`
	From     int    `json:"from,omitempty"`      // (send) 0 = no sender, 1..3 = sender pool
	N        int    `json:"n,omitempty"`         // (send) repeat count > 1: a burst of plain messages
	Chain    int    `json:"chain,omitempty"`     // (send) the receiver sends itself the next link from inside Receive, Chain times (ids ID+1..ID+Chain)
}

// Spec is a case: configuration + fault plan + history.
type Spec struct {
	InboxSize   int   `json:"inbox_size"`             // 0 = engine default
	MaxRestarts int   `json:"max_restarts"`           // restart budget
	Chain       int   `json:"chain"`                  // middleware chain length
	InitPanics  []int `json:"init_panics,omitempty"`  // incarnation numbers whose Initialized handler panics
	StartPanics []int `json:"start_panics,omitempty"` // incarnation numbers whose Started handler panics
	InitSends   int   `json:"init_sends,omitempty"`   // self-sends issued inside the first Initialized handler
	SpawnSends  int   `json:"spawn_sends,omitempty"`  // sends by a second goroutine while the first Initialized handler waits for it
	Children    int   `json:"children,omitempty"`     // children spawned in Started of the first incarnation of each process
	RespawnKids bool  `json:"respawn_kids,omitempty"` // every later incarnation spawns the same child ids again in Started (refused as duplicates)
	KidSwap     bool  `json:"kid_swap,omitempty"`     // while handling its first user message the actor lists its children, stops the first one and spawns another under a new id
	EmptyMW     bool  `json:"empty_mw,omitempty"`     // an empty WithMiddleware() option follows the real ones
	Replies     bool  `json:"replies,omitempty"`      // the receiver answers every user message that has a sender with Context.Respond
	// Split > 0: the chain is handed over in two WithMiddleware options (the first Split layers, then the
	// rest); the configured order is the order of the options.
	Split int `json:"split,omitempty"`
	// Spin: every Receive of the target yields this many times (runtime.Gosched) before it returns - a slow
	// receiver, which makes two invocations that are not serialised overlap in time instead of by luck
	Spin int `json:"spin,omitempty"`
	// SpawnCtx: "" = no WithContext option, "live" = a context that is never cancelled, "cancelled" = a
	// context that is cancelled before Spawn is called.  The spawn context is user data
	// (Context.Context()); none of the listed properties lets it influence the actor.
	SpawnCtx string `json:"spawn_ctx,omitempty"`
	Ops      []Op   `json:"ops"`
}

const (
	InitSendBase  = 100000
	SpawnSendBase = 200000
)

// Exp is one expected receiver-visible delivery.
type Exp struct {
	Inc  int    // incarnation (Producer call number, 1-based)
	Kind string // Initialized | Started | Stopped | user | gate
	ID   int    // user message id
	From int
}

func (e Exp) String() string {
	s := fmt.Sprintf("%d:%s", e.Inc, e.Kind)
	if e.Kind == "user" {
		s += fmt.Sprintf("#%d", e.ID)
	}
	return s
}

type item struct {
	pill     *Pill
	id       int
	panics   bool
	internal bool
	chain    int
	gateNext bool
	from     int
	gate     bool
}

// Pill is one Stop/Poison call of the history.
type Pill struct {
	Idx      int
	Graceful bool
	// Fate: "effective" (it stops the actor), "dead" (no such actor when called: context
	// cancelled at once), "orphan" (queued but never the stopping pill - open finding F7).
	Fate string
	// SentBefore: ids of must-deliveries sent before the pill that the actor handles.
	KillsInc int // incarnation that received Stopped because of this pill
	Process  int // which process (spawn number) it addressed
	ExpIdx   int // len(sim.Exp) when the pill took effect (its Stopped is Exp[ExpIdx-1])
	OpIdx    int // index of the op in Spec.Ops
}

// DL is the expectation that a user send dead-letters (the actor is gone and the
// driver knows it).
type DL struct {
	ID   int
	From int
}

type Sim struct {
	spec Spec

	Inc       int // Producer calls so far
	Process   int // Spawn calls that registered a process
	restarts  int
	Alive     bool // process exists (registered)
	Gated     bool
	gateStart bool // the gate is a Started handler
	pendGate  bool // next Started reached gates
	inbox     []item
	cur       []item
	draining  *Pill

	Exp              []Exp
	Restarted        []int // Restarts field of each expected ActorRestartedEvent
	MaxExceeded      int
	InternalRestarts int // restarts caused by an *actor.InternalError panic (not counted, not published)
	StoppedEv        int // expected ActorStoppedEvent count for the pid
	InitEv           int
	StartEv          int
	Pills            []*Pill
	DLs              []DL
	ProcFirstInc     map[int]int // process -> first incarnation
	Deaths           []Death
	gateReached      bool
	SpawnExpBegin    []int
	SpawnExpLen      []int // per Spawn: len(Exp) when it returned (lifecycle prefix)
}

// Death records how a process ended.
type Death struct {
	Process int
	Cause   string // pill | max_restarts
	Inc     int
}

func has(xs []int, v int) bool {
	for _, x := range xs {
		if x == v {
			return true
		}
	}
	return false
}

func NewSim(spec Spec) *Sim {
	return &Sim{spec: spec, ProcFirstInc: map[int]int{}}
}

func (s *Sim) exp(kind string, it *item) {
	e := Exp{Inc: s.Inc, Kind: kind}
	if it != nil {
		e.ID, e.From = it.id, it.from
	}
	s.Exp = append(s.Exp, e)
}

// Spawn models Engine.Spawn of the (currently unregistered) id.
func (s *Sim) Spawn(first bool) {
	s.Process++
	s.restarts = 0
	s.Alive = true
	s.inbox, s.cur, s.draining = nil, nil, nil
	s.ProcFirstInc[s.Process] = s.Inc + 1
	if first {
		for i := 0; i < s.spec.InitSends; i++ {
			s.inbox = append(s.inbox, item{id: InitSendBase + i, from: -1})
		}
		for i := 0; i < s.spec.SpawnSends; i++ {
			s.inbox = append(s.inbox, item{id: SpawnSendBase + i, from: 0})
		}
	}
	s.SpawnExpBegin = append(s.SpawnExpBegin, len(s.Exp))
	s.start()
	s.SpawnExpLen = append(s.SpawnExpLen, len(s.Exp))
	s.step()
}

// start models process.Start: new receiver, Initialized, Started.
func (s *Sim) start() {
	for s.Alive {
		s.Inc++
		s.exp("Initialized", nil)
		if has(s.spec.InitPanics, s.Inc) {
			if !s.crash() {
				return
			}
			continue
		}
		s.InitEv++
		s.exp("Started", nil)
		if s.pendGate {
			s.pendGate = false
			s.Gated, s.gateStart = true, true
			s.gateReached = true
			return // continues in Release
		}
		if has(s.spec.StartPanics, s.Inc) {
			if !s.crash() {
				return
			}
			continue
		}
		s.StartEv++
		return
	}
}

// crash models tryRestart: returns false if the actor died.
func (s *Sim) crash() bool {
	if s.restarts == s.spec.MaxRestarts {
		s.MaxExceeded++
		s.die("max_restarts")
		return false
	}
	s.exp("Stopped", nil)
	s.restarts++
	s.Restarted = append(s.Restarted, s.restarts)
	return true
}

func (s *Sim) die(cause string) {
	s.exp("Stopped", nil)
	s.StoppedEv++
	s.Alive = false
	s.Deaths = append(s.Deaths, Death{Process: s.Process, Cause: cause, Inc: s.Inc})
	for _, q := range [][]item{s.cur, s.inbox} {
		for _, it := range q {
			if it.pill != nil && it.pill.Fate == "" {
				it.pill.Fate = "orphan"
			}
		}
	}
	if s.draining != nil && s.draining.Fate == "" {
		s.draining.Fate = "orphan"
	}
	s.cur, s.inbox, s.draining = nil, nil, nil
	s.pendGate = false
}

func (s *Sim) cleanup(p *Pill) {
	p.Fate = "effective"
	p.KillsInc = s.Inc
	s.draining = nil
	s.die("pill")
	p.ExpIdx = len(s.Exp)
}

// step processes queued work until the actor blocks, idles or dies.
func (s *Sim) step() {
	for s.Alive && !s.Gated {
		if len(s.cur) == 0 {
			if s.draining != nil {
				s.cleanup(s.draining)
				return
			}
			if len(s.inbox) == 0 {
				return
			}
			n := len(s.inbox)
			if n > BatchSize {
				n = BatchSize
			}
			s.cur = append([]item(nil), s.inbox[:n]...)
			s.inbox = s.inbox[n:]
		}
		it := s.cur[0]
		s.cur = s.cur[1:]
		switch {
		case it.pill != nil:
			if s.draining != nil { // a further pill inside the drained part is skipped
				it.pill.Fate = "orphan"
				continue
			}
			if it.pill.Graceful {
				s.draining = it.pill
				continue
			}
			s.cleanup(it.pill) // the rest of the batch is dropped
			return
		case it.gate:
			s.exp("gate", &it)
			s.Gated, s.gateStart = true, false
			s.gateReached = true
			return
		default:
			s.exp("user", &it)
			if it.chain > 0 {
				// the receiver sends itself the next link: it queues up behind whatever is in the inbox now
				s.inbox = append(s.inbox, item{id: it.id + 1, chain: it.chain - 1, from: -1})
			}
			if it.panics {
				if it.gateNext {
					s.pendGate = true
				}
				// restart buffer = rest of the batch (+ the pill we were draining for)
				if s.draining != nil {
					s.cur = append(s.cur, item{pill: s.draining})
					s.draining = nil
				}
				if it.internal {
					// tryRestart, *InternalError branch: the failed receiver is told Stopped and a fresh one is
					// started; the restart counter, the budget and the event stream are not involved
					s.exp("Stopped", nil)
					s.InternalRestarts++
				} else if !s.crash() {
					return
				}
				s.start()
			}
		}
	}
}

// Release models the driver releasing the current gate.
func (s *Sim) Release() {
	wasStart := s.gateStart
	s.Gated, s.gateStart = false, false
	if wasStart {
		if has(s.spec.StartPanics, s.Inc) {
			if s.crash() {
				s.start()
			}
		} else {
			s.StartEv++
		}
	}
	s.step()
}

// Send models one driver send (a burst of N plain messages if N > 1).
func (s *Sim) Send(op Op) {
	n := op.N
	if n < 1 {
		n = 1
	}
	for k := 0; k < n; k++ {
		it := item{id: op.ID + k, panics: op.Panic && n == 1, internal: op.Internal && op.Panic && n == 1, gateNext: op.GateNext && n == 1, from: op.From}
		if n == 1 && !op.Panic {
			it.chain = op.Chain
		}
		if !s.Alive {
			s.DLs = append(s.DLs, DL{ID: it.id, From: it.from})
			continue
		}
		s.inbox = append(s.inbox, it)
	}
	if s.Alive && !s.Gated {
		s.step()
	}
}

func (s *Sim) SendGate() {
	s.gateReached = false
	s.inbox = append(s.inbox, item{gate: true})
	if !s.Gated {
		s.step()
	}
}

// SendPill models Stop/Poison.
func (s *Sim) SendPill(graceful bool) *Pill {
	p := &Pill{Idx: len(s.Pills), Graceful: graceful, Process: s.Process}
	s.Pills = append(s.Pills, p)
	if !s.Alive {
		p.Fate = "dead"
		return p
	}
	s.inbox = append(s.inbox, item{pill: p})
	if !s.Gated {
		s.step()
	}
	return p
}

// GateReached reports whether the last SendGate / Release / Send drove the actor into a gate.
func (s *Sim) TakeGateReached() bool {
	g := s.gateReached
	s.gateReached = false
	return g
}
