package life

import (
	"fmt"
	"strings"
)

func (o *Obs) recv() []Entry {
	var r []Entry
	for _, e := range o.Log {
		if e.Who == "R" && e.Kind != "sync" && e.Kind != "probe" {
			r = append(r, e)
		}
	}
	return r
}

func fmtLog(es []Entry) string {
	var sb strings.Builder
	for i, e := range es {
		if i > 0 {
			sb.WriteString(" ")
		}
		if i > 400 {
			sb.WriteString("...")
			break
		}
		sb.WriteString(e.String())
	}
	return sb.String()
}

func fmtExp(es []Exp) string {
	var sb strings.Builder
	for i, e := range es {
		if i > 0 {
			sb.WriteString(" ")
		}
		if i > 400 {
			sb.WriteString("...")
			break
		}
		sb.WriteString(e.String())
	}
	return sb.String()
}

func isLifecycle(k string) bool { return k == "Initialized" || k == "Started" || k == "Stopped" }

// ---- C04 --------------------------------------------------------------------

// CheckC04: lifecycle protocol per incarnation.
func CheckC04(spec Spec, o *Obs, sim *Sim) error {
	rs := o.recv()
	// "Messages sent to the PID from the moment Spawn registered it ... are retained and delivered":
	// a sentinel (or the stop request) that a later message of the same sender overtook for good was
	// sent to a spawned, started actor and never delivered.  Decided by the driver without a clock.
	if strings.Contains(o.Diverged, "lost or overtaken") || strings.Contains(o.Diverged, "still handling messages sent after the batch that should have stopped it") {
		return fmt.Errorf("%s; receiver log: %s", o.Diverged, fmtLog(rs))
	}
	// (a) structure per incarnation: Initialized (Started msg*)? Stopped? and nothing after Stopped
	type st struct{ init, started, stopped bool }
	incs := map[int]*st{}
	maxInc := 0
	for i, e := range rs {
		s := incs[e.Inc]
		if s == nil {
			s = &st{}
			incs[e.Inc] = s
		}
		if e.Inc > maxInc {
			maxInc = e.Inc
		}
		if s.stopped {
			return fmt.Errorf("incarnation %d received %s after its Stopped (entry %d); receiver log: %s", e.Inc, e, i, fmtLog(rs))
		}
		switch e.Kind {
		case "Initialized":
			if s.init {
				return fmt.Errorf("incarnation %d received Initialized twice; log: %s", e.Inc, fmtLog(rs))
			}
			s.init = true
		case "Started":
			if !s.init || s.started {
				return fmt.Errorf("incarnation %d received Started out of protocol (init=%v started=%v); log: %s", e.Inc, s.init, s.started, fmtLog(rs))
			}
			s.started = true
		case "Stopped":
			if !s.init {
				return fmt.Errorf("incarnation %d received Stopped before Initialized; log: %s", e.Inc, fmtLog(rs))
			}
			s.stopped = true
		default:
			if strings.HasPrefix(e.Kind, "foreign:") {
				continue // pill visibility is C07's business
			}
			if !s.started {
				return fmt.Errorf("incarnation %d received %s before Started; log: %s", e.Inc, e, fmtLog(rs))
			}
		}
	}
	// (b) an incarnation that ended - it was replaced by a later one, or the actor is gone at
	// the end of the history - was told Stopped (exactly once, see (a)); a live one was not
	for inc := 1; inc <= maxInc; inc++ {
		g := incs[inc]
		if g == nil {
			return fmt.Errorf("incarnation %d was produced but received nothing; log: %s", inc, fmtLog(rs))
		}
		ended := inc < maxInc || o.FinalRegNil
		if ended && !g.stopped {
			return fmt.Errorf("incarnation %d ended (replaced=%v, actor unregistered at the end=%v) without being told Stopped; log: %s", inc, inc < maxInc, o.FinalRegNil, fmtLog(rs))
		}
		if !ended && g.stopped {
			return fmt.Errorf("incarnation %d was told Stopped but the actor is still registered and it was not replaced; log: %s", inc, fmtLog(rs))
		}
	}
	// (c) messages sent between registration and Started are retained and delivered, once, after Started
	wantSpawn := map[int]int{}
	for _, x := range sim.Exp {
		if x.Kind == "user" && x.ID >= InitSendBase {
			wantSpawn[x.ID] = x.Inc
		}
	}
	gotSpawn := map[int]int{}
	for _, e := range rs {
		if e.Kind == "user" && e.ID >= InitSendBase {
			if _, dup := gotSpawn[e.ID]; dup {
				return fmt.Errorf("spawn-time message %d delivered twice; log: %s", e.ID, fmtLog(rs))
			}
			gotSpawn[e.ID] = e.Inc
		}
	}
	for id, inc := range wantSpawn {
		if g, ok := gotSpawn[id]; !ok || g != inc {
			return fmt.Errorf("message %d, sent while the actor was being spawned, should be delivered after Started of incarnation %d; got incarnation %d (present=%v); log: %s", id, inc, g, ok, fmtLog(rs))
		}
	}
	// (d) when Spawn returned, the lifecycle the model predicts for that call had been handled
	for k, n := range o.SpawnLogLen {
		if k >= len(sim.SpawnExpLen) {
			break
		}
		var prefix []Entry
		for _, e := range o.Log[:n] {
			if e.Who == "R" && isLifecycle(e.Kind) {
				prefix = append(prefix, e)
			}
		}
		var wantLC []Exp
		for _, x := range sim.Exp[sim.SpawnExpBegin[k]:sim.SpawnExpLen[k]] {
			if isLifecycle(x.Kind) {
				wantLC = append(wantLC, x)
			}
		}
		if !containsLifecycle(prefix, wantLC) {
			return fmt.Errorf("when Spawn #%d returned the receiver had handled [%s]; expected [%s] (Started is handled before Spawn of a fresh id returns)", k+1, fmtLog(prefix), fmtExp(wantLC))
		}
	}
	return nil
}

func containsLifecycle(got []Entry, want []Exp) bool {
	i := 0
	for _, g := range got {
		if i < len(want) && g.Kind == want[i].Kind && g.Inc == want[i].Inc {
			i++
		}
	}
	return i == len(want)
}

// ---- C05 --------------------------------------------------------------------

// CheckC05: panic containment and replay.
func CheckC05(spec Spec, o *Obs, sim *Sim) error {
	rs := o.recv()
	if !o.BystanderOK {
		return fmt.Errorf("bystander actor did not answer after the history: the engine is not working any more")
	}
	// user deliveries (with incarnation) equal the model's: nothing lost, duplicated, reordered;
	// the failed message is not redelivered; the tail goes to the fresh incarnation
	var got, want []string
	for _, e := range rs {
		if e.Kind == "user" {
			got = append(got, fmt.Sprintf("%d:#%d", e.Inc, e.ID))
		}
	}
	for _, x := range sim.Exp {
		if x.Kind == "user" {
			want = append(want, fmt.Sprintf("%d:#%d", x.Inc, x.ID))
		}
	}
	if strings.Join(got, " ") != strings.Join(want, " ") {
		return fmt.Errorf("user deliveries (incarnation:#id) differ from the model\n got:  %s\n want: %s\n full receiver log: %s", clip(got), clip(want), fmtLog(rs))
	}
	// each failure inside the budget: Stopped is the failed incarnation's last message and a
	// fresh receiver is produced and initialised (Initialized, then Started unless that handler
	// is planned to fail too)
	firstOf := map[int]bool{}
	for _, inc := range sim.ProcFirstInc {
		firstOf[inc] = true
	}
	byInc := map[int][]Entry{}
	for _, e := range rs {
		byInc[e.Inc] = append(byInc[e.Inc], e)
	}
	for inc := 2; inc <= sim.Inc; inc++ {
		if firstOf[inc] {
			continue // a respawn, not a restart
		}
		prev, cur := byInc[inc-1], byInc[inc]
		if len(prev) == 0 || prev[len(prev)-1].Kind != "Stopped" {
			return fmt.Errorf("incarnation %d failed and was replaced, but Stopped is not the last thing it was told; log: %s", inc-1, fmtLog(rs))
		}
		if len(cur) == 0 || cur[0].Kind != "Initialized" {
			return fmt.Errorf("the receiver produced after failure of incarnation %d was not initialised first; log: %s", inc-1, fmtLog(rs))
		}
		if !has(spec.InitPanics, inc) && (len(cur) < 2 || cur[1].Kind != "Started") {
			return fmt.Errorf("the receiver produced after failure of incarnation %d was not started; log: %s", inc-1, fmtLog(rs))
		}
		if cur[0].Seq < prev[len(prev)-1].Seq {
			return fmt.Errorf("incarnation %d was initialised before incarnation %d was told Stopped", inc, inc-1)
		}
	}
	if len(byInc) != sim.Inc {
		return fmt.Errorf("%d incarnations produced, the model expects %d; log: %s", len(byInc), sim.Inc, fmtLog(rs))
	}
	// ActorRestartedEvent with incremented count per failure inside the budget
	var restarts []int
	for _, ev := range o.Events {
		if ev.Type == "restarted" && ev.PID == o.PID.String() {
			restarts = append(restarts, int(ev.Restarts))
		}
	}
	if fmt.Sprint(restarts) != fmt.Sprint(sim.Restarted) {
		return fmt.Errorf("ActorRestartedEvent.Restarts sequence %v, expected %v", restarts, sim.Restarted)
	}
	return nil
}

func clip(xs []string) string {
	if len(xs) > 300 {
		return strings.Join(xs[:300], " ") + fmt.Sprintf(" ...(%d more)", len(xs)-300)
	}
	return strings.Join(xs, " ")
}

// sameKinds compares the full receiver trace with the model, entry by entry.
func sameKinds(rs []Entry, exp []Exp) error {
	n := len(rs)
	if len(exp) < n {
		n = len(exp)
	}
	for i := 0; i < n; i++ {
		if rs[i].Kind != exp[i].Kind || rs[i].Inc != exp[i].Inc || (rs[i].Kind == "user" && rs[i].ID != exp[i].ID) {
			return fmt.Errorf("receiver trace diverges from the model at entry %d: got %s, want %s\n got:  %s\n want: %s", i, rs[i], exp[i], fmtLog(rs), fmtExp(exp))
		}
	}
	if len(rs) != len(exp) {
		return fmt.Errorf("receiver trace has %d entries, the model %d\n got:  %s\n want: %s", len(rs), len(exp), fmtLog(rs), fmtExp(exp))
	}
	return nil
}

// ---- C06 --------------------------------------------------------------------

// CheckC06: restarts bounded; exceeding the budget stops the actor cleanly.
func CheckC06(spec Spec, o *Obs, sim *Sim) error {
	if !o.BystanderOK {
		return fmt.Errorf("bystander actor did not answer after the history: the hosting process/engine is not working any more")
	}
	pid := o.PID.String()
	// per process: number of restarts <= budget. Processes are delimited by ActorStoppedEvent.
	n, maxEv, stopped := 0, 0, 0
	for _, ev := range o.Events {
		if ev.PID != pid {
			continue
		}
		switch ev.Type {
		case "restarted":
			n++
			if n > spec.MaxRestarts {
				return fmt.Errorf("actor restarted %d times with MaxRestarts=%d", n, spec.MaxRestarts)
			}
			if int(ev.Restarts) != n {
				return fmt.Errorf("ActorRestartedEvent #%d carries Restarts=%d", n, ev.Restarts)
			}
		case "max_restarts":
			maxEv++
			if n != spec.MaxRestarts {
				return fmt.Errorf("ActorMaxRestartsExceededEvent after only %d restarts (MaxRestarts=%d)", n, spec.MaxRestarts)
			}
		case "stopped":
			stopped++
			n = 0
		}
	}
	// an actor that exceeds its budget inside Spawn is unregistered when Spawn returns (all synchronous)
	for k, reg := range o.SpawnDeathReg {
		if reg {
			return fmt.Errorf("spawn-time death #%d: the actor exceeded MaxRestarts=%d inside its start-up, yet its id is still registered when Spawn returns "+
				"(later sends do not dead-letter, the id cannot be spawned again)", k+1, spec.MaxRestarts)
		}
	}
	// The remaining expectations come from the reference model; they are only meaningful when
	// the actor followed the model everywhere else (a deviation in what was delivered is the
	// business of C04/C05/C07, and makes the predicted deaths meaningless)
	if sameKinds(o.recv(), sim.Exp) != nil || o.Diverged != "" {
		return nil
	}
	if maxEv != sim.MaxExceeded {
		return fmt.Errorf("%d ActorMaxRestartsExceededEvent(s), the model expects %d", maxEv, sim.MaxExceeded)
	}
	if stopped != sim.StoppedEv {
		return fmt.Errorf("%d ActorStoppedEvent(s) for the actor, the model expects %d", stopped, sim.StoppedEv)
	}
	// the incarnation count equals the model's (no restart beyond the budget, none missing)
	rs := o.recv()
	maxInc := 0
	for _, e := range rs {
		if e.Inc > maxInc {
			maxInc = e.Inc
		}
	}
	if maxInc != sim.Inc {
		return fmt.Errorf("%d incarnations produced, the model expects %d; log: %s", maxInc, sim.Inc, fmtLog(rs))
	}
	// after every death: unregistered, children stopped first and unregistered
	for k, d := range sim.Deaths {
		if k < len(o.TargetRegNil) && !o.TargetRegNil[k] {
			return fmt.Errorf("after death #%d (%s) the actor id is still registered", k+1, d.Cause)
		}
		if k < len(o.ChildRegNil) {
			for c, nilp := range o.ChildRegNil[k] {
				if !nilp {
					return fmt.Errorf("after death #%d (%s) of the parent, child %d is still registered", k+1, d.Cause, c)
				}
			}
		}
	}
	if spec.Children > 0 {
		if err := childrenStoppedFirst(o, sim); err != nil {
			return err
		}
	}
	// later sends dead-letter, exactly once each, carrying target, message and sender
	return deadLetters(o, sim)
}

func childrenStoppedFirst(o *Obs, sim *Sim) error {
	// for each death of the parent (Stopped entry of R for the dying incarnation) every child of
	// that process has a Stopped entry with a smaller sequence number
	for _, d := range sim.Deaths {
		first := sim.ProcFirstInc[d.Process]
		var parentStop int64 = -1
		for _, e := range o.Log {
			if e.Who == "R" && e.Kind == "Stopped" && e.Inc == d.Inc {
				parentStop = e.Seq
			}
		}
		if parentStop < 0 {
			continue // C04 reports a missing Stopped
		}
		// were children spawned at all (the first incarnation reached Started)?
		spawned := false
		for _, x := range sim.Exp {
			if x.Inc == first && x.Kind == "Started" {
				spawned = true
			}
		}
		if !spawned {
			continue
		}
		for c := 0; c < sim.spec.Children; c++ {
			who := fmt.Sprintf("C%d", c)
			var cs int64 = -1
			for _, e := range o.Log {
				if e.Who == who && e.Inc == first && e.Kind == "Stopped" {
					cs = e.Seq
				}
			}
			if cs < 0 {
				return fmt.Errorf("child %d of process %d never received Stopped although its parent died (%s)", c, d.Process, d.Cause)
			}
			if cs > parentStop {
				return fmt.Errorf("child %d of process %d handled Stopped after its parent did (seq %d > %d)", c, d.Process, cs, parentStop)
			}
		}
	}
	return nil
}

func deadLetters(o *Obs, sim *Sim) error {
	pid := o.PID.String()
	got := map[int]int{}
	for _, ev := range o.Events {
		if ev.Type != "deadletter" || ev.Target != pid {
			continue
		}
		m, ok := ev.Msg.(UMsg)
		if !ok {
			continue
		}
		got[m.ID]++
		// sender carried faithfully
		for _, d := range sim.DLs {
			if d.ID == m.ID {
				var want string
				if d.From > 0 {
					want = o.Senders[d.From-1].String()
				}
				g := ""
				if ev.Sender != nil {
					g = ev.Sender.String()
				}
				if g != want {
					return fmt.Errorf("DeadLetterEvent for message %d carries sender %q, sent with %q", m.ID, g, want)
				}
			}
		}
	}
	want := map[int]bool{}
	for _, d := range sim.DLs {
		want[d.ID] = true
		if got[d.ID] != 1 {
			return fmt.Errorf("message %d was sent after the actor was gone and unregistered: expected exactly one DeadLetterEvent, got %d", d.ID, got[d.ID])
		}
	}
	for id := range got {
		if !want[id] {
			return fmt.Errorf("unexpected DeadLetterEvent for message %d (the model says it was sent to a live actor)", id)
		}
	}
	return nil
}

// ---- C01 --------------------------------------------------------------------

// CheckC01: every message the model says is handled arrives exactly once, in the model's order (one
// driver goroutine plus the actor's own self-sends: every pair of sends to the actor is ordered by
// happens-before), with the message value and the sender given at the send.
func CheckC01(spec Spec, o *Obs, sim *Sim) error {
	if o.Diverged != "" {
		return nil // the actor left the model for a reason that is another property's business
	}
	rs := o.recv()
	var got, want []string
	for _, e := range rs {
		if e.Kind == "user" {
			got = append(got, fmt.Sprintf("#%d/from%d", e.ID, e.From))
		}
	}
	for _, x := range sim.Exp {
		if x.Kind == "user" {
			want = append(want, fmt.Sprintf("#%d/from%d", x.ID, x.From))
		}
	}
	if strings.Join(got, " ") != strings.Join(want, " ") {
		i := 0
		for i < len(got) && i < len(want) && got[i] == want[i] {
			i++
		}
		return fmt.Errorf("deliveries (message id / sender) differ from the sends at position %d: lost, duplicated, reordered or with another sender\n got:  %s\n want: %s", i, clip(got[max(0, i-3):]), clip(want[max(0, i-3):]))
	}
	for _, e := range rs {
		if e.Kind == "user" && !e.MsgOK {
			return fmt.Errorf("message %d arrived with a value that differs from what was sent", e.ID)
		}
	}
	return nil
}

// ---- C02 --------------------------------------------------------------------

// CheckC02: Receive is serial.  The histories are the same as for C04/C05; the observation is an
// entry/exit counter around every invocation of the target's Receive (lifecycle messages and all
// incarnations included).  Gates make the check sharp: while the receiver is blocked inside
// Receive every further delivery, on whichever goroutine, is an overlap.
func CheckC02(spec Spec, o *Obs, sim *Sim) error {
	if o.Overlap != "" {
		return fmt.Errorf("%s; receiver log: %s", o.Overlap, fmtLog(o.recv()))
	}
	return nil
}

// ---- C07 --------------------------------------------------------------------

// CheckC07: Stop/Poison contexts.
func CheckC07(spec Spec, o *Obs, sim *Sim, orphansExpectedDone bool) error {
	// pills are never visible to Receive (nor to middleware)
	for _, e := range o.Log {
		if strings.HasPrefix(e.Kind, "foreign:") {
			return fmt.Errorf("a message of a type the harness never sent reached %s: %s (poison pills must stay private to the engine)", e.Who, e.Kind)
		}
	}
	pid := o.PID.String()
	for _, p := range sim.Pills {
		who := fmt.Sprintf("ctx%d", p.Idx)
		var done *Entry
		for i := range o.Log {
			if o.Log[i].Who == who {
				done = &o.Log[i]
			}
		}
		kind := "Stop"
		if p.Graceful {
			kind = "Poison"
		}
		switch p.Fate {
		case "orphan":
			if orphansExpectedDone && done == nil {
				return fmt.Errorf("context of %s call #%d never became done (pill was not the one that stopped the actor)", kind, p.Idx)
			}
			if done == nil {
				continue
			}
		case "effective", "dead":
			if done == nil {
				return fmt.Errorf("context of %s call #%d (fate %s) did not become done although the actor is stopped and unregistered", kind, p.Idx, p.Fate)
			}
		}
		if !done.RegNil {
			return fmt.Errorf("when the context of %s call #%d became done the actor id was still registered", kind, p.Idx)
		}
		// the probe sent right after Done must dead-letter and must not be delivered
		for _, e := range o.Log {
			if e.Who == "R" && e.Kind == "probe" && e.ID == p.Idx {
				return fmt.Errorf("a message sent after the context of %s call #%d was done was delivered to the actor", kind, p.Idx)
			}
		}
		probeDL := 0
		for _, ev := range o.Events {
			if ev.Type == "deadletter" && ev.Target == pid {
				if m, ok := ev.Msg.(ProbeMsg); ok && m.N == p.Idx {
					probeDL++
				}
			}
		}
		if probeDL != 1 {
			return fmt.Errorf("the probe sent after the context of %s call #%d was done produced %d DeadLetterEvents, expected 1", kind, p.Idx, probeDL)
		}
		if p.Fate == "orphan" {
			// a request that did not stop the actor itself is signalled only after the actor, stopped
			// by something else (an earlier pill, the exhausted restart budget), has handled Stopped
			for _, d := range sim.Deaths {
				if d.Process != p.Process {
					continue
				}
				var stopSeq int64 = -1
				for _, e := range o.Log {
					if e.Who == "R" && e.Kind == "Stopped" && e.Inc == d.Inc {
						stopSeq = e.Seq
					}
				}
				if stopSeq < 0 || stopSeq > done.Seq {
					return fmt.Errorf("context of %s call #%d (not the request that stopped the actor) became done (seq %d) before incarnation %d had handled its final Stopped (seq %d)", kind, p.Idx, done.Seq, d.Inc, stopSeq)
				}
			}
		}
		if p.Fate != "effective" {
			continue
		}
		// Stopped of the killed incarnation precedes Done
		var stopSeq int64 = -1
		for _, e := range o.Log {
			if e.Who == "R" && e.Kind == "Stopped" && e.Inc == p.KillsInc {
				stopSeq = e.Seq
			}
		}
		if stopSeq < 0 || stopSeq > done.Seq {
			return fmt.Errorf("context of %s call #%d became done (seq %d) before incarnation %d had handled Stopped (seq %d)", kind, p.Idx, done.Seq, p.KillsInc, stopSeq)
		}
		// everything the model says is handled before the stop was handled before Done
		seen := map[int]int64{}
		for _, e := range o.Log {
			if e.Who == "R" && e.Kind == "user" {
				seen[e.ID] = e.Seq
			}
		}
		first := sim.ProcFirstInc[p.Process]
		for _, x := range sim.Exp[:p.ExpIdx] {
			if x.Kind != "user" || x.Inc < first {
				continue
			}
			s, ok := seen[x.ID]
			if !ok {
				return fmt.Errorf("message %d was sent before %s call #%d but was never handled, yet the context became done", x.ID, kind, p.Idx)
			}
			if s > done.Seq {
				return fmt.Errorf("message %d was handled after the context of %s call #%d became done", x.ID, kind, p.Idx)
			}
		}
	}
	// a Stop drops, a Poison drains: deliveries equal the model's (which messages behind a pill are handled)
	rs := o.recv()
	var got, want []string
	for _, e := range rs {
		if e.Kind == "user" {
			got = append(got, fmt.Sprintf("#%d", e.ID))
		}
	}
	for _, x := range sim.Exp {
		if x.Kind == "user" {
			want = append(want, fmt.Sprintf("#%d", x.ID))
		}
	}
	if strings.Join(got, " ") != strings.Join(want, " ") {
		return fmt.Errorf("messages handled around the Stop/Poison calls differ from the model (Poison: everything sent before it, and the rest of its batch; Stop: nothing behind it)\n got:  %s\n want: %s", clip(got), clip(want))
	}
	return nil
}

// ---- C13 --------------------------------------------------------------------

// CheckC13: every delivery goes through the whole chain, in order, with a consistent view.
func CheckC13(spec Spec, o *Obs, sim *Sim) error {
	k := spec.Chain
	// The bracket structure below reads a totally ordered log; it is only meaningful while one
	// delivery happens at a time and nothing is delivered to a stopped incarnation (C02/C04):
	// if that does not hold on this observation the case is not judged here.
	stoppedInc := map[int]bool{}
	for _, e := range o.recv() {
		if stoppedInc[e.Inc] {
			return nil
		}
		if e.Kind == "Stopped" {
			stoppedInc[e.Inc] = true
		}
	}
	if o.Diverged != "" {
		return nil
	}
	var seq []Entry
	for _, e := range o.Log {
		if e.Who == "R" || (len(e.Who) > 1 && e.Who[0] == 'M') {
			seq = append(seq, e)
		}
	}
	i := 0
	deliveries := 0
	for i < len(seq) {
		// expect M0.in .. M(k-1).in R M(k-1).out .. M0.out
		start := i
		for m := 0; m < k; m++ {
			if i >= len(seq) || seq[i].Who != fmt.Sprintf("M%d", m) || seq[i].Phase != "in" {
				return fmt.Errorf("delivery #%d: expected middleware %d to be entered (outermost first), got %v; sequence around: %s", deliveries, m, at(seq, i), fmtLog(window(seq, start)))
			}
			i++
		}
		if i >= len(seq) || seq[i].Who != "R" {
			return fmt.Errorf("delivery #%d: expected the receiver after %d middleware(s), got %v; sequence around: %s", deliveries, k, at(seq, i), fmtLog(window(seq, start)))
		}
		r := seq[i]
		i++
		for m := k - 1; m >= 0; m-- {
			if i >= len(seq) {
				return nil // the log snapshot ends inside a delivery (only possible when a stopped actor still runs)
			}
			if seq[i].Who != fmt.Sprintf("M%d", m) || seq[i].Phase == "in" {
				return fmt.Errorf("delivery #%d (%s): expected middleware %d to return, got %v; sequence around: %s", deliveries, r, m, at(seq, i), fmtLog(window(seq, start)))
			}
			i++
		}
		// same message and sender seen at every layer
		for j := start; j < i; j++ {
			e := seq[j]
			if e.Kind != r.Kind || e.ID != r.ID {
				return fmt.Errorf("delivery #%d: %s saw message %s#%d but the receiver saw %s#%d", deliveries, e.Who, e.Kind, e.ID, r.Kind, r.ID)
			}
			if r.Kind == "user" && e.From != r.From {
				return fmt.Errorf("delivery #%d (%s): %s saw sender %d but the receiver saw %d", deliveries, r, e.Who, e.From, r.From)
			}
			// a lifecycle message has no sender: the Context must not show the sender of an earlier delivery
			if (r.Kind == "Initialized" || r.Kind == "Started" || r.Kind == "Stopped") && e.From != 0 {
				return fmt.Errorf("delivery #%d (%s): %s was shown sender %d in the Context of a lifecycle message (0 = none, the engine sends these itself; 1..3 = the sender of an earlier user message)", deliveries, r, e.Who, e.From)
			}
		}
		deliveries++
	}
	// the receiver saw what the model says (so that "every message" is not vacuous), with the sender given
	rs := o.recv()
	n := 0
	for _, x := range sim.Exp {
		if n >= len(rs) {
			break
		}
		if x.Kind == "user" && rs[n].Kind == "user" && x.ID == rs[n].ID && x.From != rs[n].From && x.From >= 0 {
			return fmt.Errorf("message %d was sent with sender %d, the chain and receiver saw %d", x.ID, x.From, rs[n].From)
		}
		n++
	}
	return nil
}

func at(seq []Entry, i int) any {
	if i < len(seq) {
		return seq[i].String()
	}
	return "<end of log>"
}

func window(seq []Entry, i int) []Entry {
	lo, hi := i-6, i+12
	if lo < 0 {
		lo = 0
	}
	if hi > len(seq) {
		hi = len(seq)
	}
	return seq[lo:hi]
}

// ---- classification -----------------------------------------------------------

// Features summarises what a history exercised (labels for the evidence histogram and
// the per-property non-triviality rules).
type Features struct {
	Crashes           int  // failures inside the budget + the budget-exhausting one + InternalError restarts
	InternalCrashes   int  // panics with an *actor.InternalError (restart outside the budget)
	MidBatchCrash     bool // a failing message that is neither first nor last of its queued window
	CrashInReplay     bool // a failure while the restart buffer was being replayed
	LifecycleCrash    bool
	MaxDeath          bool
	PillDeath         bool
	PillWithBothSides bool // a pill with messages before and behind it in one window
	PillMeetsCrash    bool
	Pills             int
	Respawns          int
	StartGate         bool
	Gates             int  // gate ops (the receiver blocked inside Receive)
	LongChain         bool // a self-feeding chain of more than 300 links (the inbox's throughput)
	BatchCross        bool // a queued window larger than the batch size
	SpawnSends        bool
	DeadLetters       int
}

func Classify(spec Spec, sim *Sim) Features {
	f := Features{Pills: len(sim.Pills), DeadLetters: len(sim.DLs), SpawnSends: spec.InitSends+spec.SpawnSends > 0}
	f.Crashes = len(sim.Restarted) + sim.MaxExceeded + sim.InternalRestarts
	f.InternalCrashes = sim.InternalRestarts
	f.MaxDeath = sim.MaxExceeded > 0
	for _, d := range sim.Deaths {
		if d.Cause == "pill" {
			f.PillDeath = true
		}
	}
	// window analysis on the op list: a window = ops between gate and release
	gated := false
	var win []Op
	flush := func() {
		n := 0
		for _, o := range win {
			if o.K == "send" {
				if o.N > 1 {
					n += o.N
				} else {
					n++
				}
			}
		}
		if n > BatchSize {
			f.BatchCross = true
		}
		for i, o := range win {
			if o.K == "send" && o.Panic && i > 0 && i < len(win)-1 {
				f.MidBatchCrash = true
			}
			if o.K == "poison" || o.K == "stop" {
				before, after, crashAfter := false, false, false
				for j, q := range win {
					if q.K == "send" && j < i {
						before = true
					}
					if q.K == "send" && j > i {
						after = true
						if q.Panic {
							crashAfter = true
						}
					}
				}
				if before && after {
					f.PillWithBothSides = true
				}
				if crashAfter && o.K == "poison" {
					f.PillMeetsCrash = true
				}
			}
			if o.K == "send" && o.Panic {
				for j, q := range win {
					if j > i && q.K == "send" && q.Panic {
						f.CrashInReplay = true
					}
					if j > i && (q.K == "poison" || q.K == "stop") {
						f.PillMeetsCrash = true
					}
				}
			}
		}
		win = nil
	}
	for _, o := range spec.Ops {
		switch o.K {
		case "gate":
			gated = true
			f.Gates++
			win = nil
		case "release":
			if gated {
				flush()
			}
			// a start gate keeps collecting
			win = nil
		case "respawn":
			f.Respawns++
		default:
			if o.K == "send" && o.GateNext {
				f.StartGate = true
			}
			if o.K == "send" && o.Chain > 300 {
				f.LongChain = true
			}
			win = append(win, o)
		}
	}
	for _, x := range append(append([]int(nil), spec.InitPanics...), spec.StartPanics...) {
		if x <= sim.Inc {
			f.LifecycleCrash = true
		}
	}
	return f
}

func (f Features) Labels() []string {
	var l []string
	add := func(b bool, s string) {
		if b {
			l = append(l, s)
		}
	}
	add(f.Crashes > 0, "crash")
	add(f.Crashes > 1, "multi-crash")
	add(f.InternalCrashes > 0, "internal-error-restart")
	add(f.LongChain, "self-feeding-chain>300")
	add(f.MidBatchCrash, "mid-batch-crash")
	add(f.CrashInReplay, "crash-in-replay")
	add(f.LifecycleCrash, "lifecycle-crash")
	add(f.MaxDeath, "max-restarts-death")
	add(f.PillDeath, "pill-death")
	add(f.PillWithBothSides, "pill-with-msgs-both-sides")
	add(f.PillMeetsCrash, "pill-meets-crash")
	add(f.Pills > 1, "multi-pill")
	add(f.Respawns > 0, "respawn")
	add(f.StartGate, "start-gate")
	add(f.BatchCross, "batch-cross-4096")
	add(f.SpawnSends, "spawn-time-sends")
	add(f.DeadLetters > 0, "dead-letters")
	return l
}
