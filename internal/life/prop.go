package life

import (
	"encoding/json"
	"errors"

	"pgregory.net/rapid"

	"verif/internal/vh"
)

// Oracle judges one observation for one property.
type Oracle func(spec Spec, o *Obs, sim *Sim) error

// RunCase executes a normalised history and applies the oracle.
func RunCase(spec Spec, waitOrphans bool, oracle Oracle) (Features, bool, error) {
	obs, sim, err := Run(spec, waitOrphans)
	if err != nil {
		return Features{}, false, err
	}
	return Classify(spec, sim), obs.Diverged != "", oracle(spec, obs, sim)
}

// Property is the body shared by the rapid tests of C04, C05, C06, C07 and C13.
func Property(t *rapid.T, st *vh.T, spec Spec, waitOrphans bool, oracle Oracle, nontrivial func(Features) bool) {
	st.Begin(spec)
	f, div, err := RunCase(spec, waitOrphans, oracle)
	if errors.Is(err, ErrInconclusive) {
		if st.Failed() > 0 {
			return // shrinking: a timed-out candidate is simply not taken
		}
		t.Fatalf("harness: %v", err)
	}
	if err != nil {
		st.Fail(spec, err)
		ShrinkMode()
		t.Fatalf("%v", err)
	}
	labels := f.Labels()
	if div {
		// the actor contradicted the reference model in a way this property's oracle does
		// not cover (another property's business): counted, not judged here
		labels = append(labels, "diverged-from-model-outside-this-property")
	}
	st.Done(spec, nontrivial(f) && !div, labels...)
}

// Replayer returns the replay function for a life-based test.
func Replayer(waitOrphans bool, oracle Oracle) func(json.RawMessage) error {
	return func(raw json.RawMessage) error {
		var spec Spec
		if err := json.Unmarshal(raw, &spec); err != nil {
			return err
		}
		_, _, err := RunCase(spec, waitOrphans, oracle)
		return err
	}
}
