package life

import (
	"context"
	"errors"
	"fmt"
	"reflect"
	"runtime"
	"sync"
	"sync/atomic"
	"time"

	"github.com/anthdm/hollywood/actor"
)

// ErrInconclusive marks a bounded wait that expired: never a verdict.
var ErrInconclusive = errors.New("harness: inconclusive (bounded wait expired)")

// waitLimit bounds every wait of the driver. It is generous so that a loaded machine never
// turns into a verdict; once a failure has been found (rapid is shrinking, the model and the
// engine may diverge at every step) ShrinkMode cuts it down: a timeout is then only a worse
// shrink, never a verdict.
var waitLimit = 30 * time.Second

// ShrinkMode shortens the bounded waits.
func ShrinkMode() { waitLimit = 1500 * time.Millisecond }

// ---- messages ---------------------------------------------------------------

// AckMsg is what the receiver answers with when the spec asks for replies.
type AckMsg struct{ ID int }

type UMsg struct {
	ID       int
	Panic    bool
	Internal bool
	Chain    int
	Link     bool // sent by the receiver to itself as part of a chain
	PanicVal int
	GateNext bool
}
type GateMsg struct{ N int }
type SyncMsg struct{ N int }
type ProbeMsg struct{ N int }
type Fence struct{ N int }
type ctxKey struct{}

func chainOf(op Op, n int) int {
	if n == 1 && !op.Panic {
		return op.Chain
	}
	return 0
}

// ---- observation ------------------------------------------------------------

// Entry is one line of the global, totally ordered log.
type Entry struct {
	Seq    int64
	Who    string // "R" receiver | "M<i>" middleware | "C<i>" child receiver | "ctx<i>" | "ev"
	Phase  string // middleware: in | out | unwound
	Inc    int
	Kind   string // Initialized | Started | Stopped | user | gate | sync | foreign:<type>
	ID     int
	From   int    // sender pool index, 0 = nil, -1 = self, -2 = unknown pid
	MsgOK  bool   // Context.Message() is the value that was sent
	Note   string // extra
	RegNil bool   // ctx: Registry.GetPID was nil at observation
}

func (e Entry) String() string {
	s := fmt.Sprintf("%s%s %d:%s", e.Who, e.Phase, e.Inc, e.Kind)
	if e.Kind == "user" {
		s += fmt.Sprintf("#%d", e.ID)
	}
	return s
}

// Event is an event-stream event seen by the monitor.
type Event struct {
	Seq      int64
	Type     string
	PID      string
	Restarts int32
	Target   string
	Msg      any
	Sender   *actor.PID
}

type Obs struct {
	Log           []Entry
	Events        []Event
	SpawnLogLen   []int // len(Log) right after each Spawn returned
	PillDone      map[int]bool
	BystanderOK   bool
	ChildPIDs     [][]*actor.PID // per process
	ChildRegNil   [][]bool       // per death, per child: unregistered when the parent's ActorStoppedEvent was seen
	TargetRegNil  []bool         // per death: the target id was unregistered when its ActorStoppedEvent was seen
	PID           *actor.PID
	Senders       []*actor.PID
	FinalRegNil   bool   // the target id was unregistered when the history ended
	SpawnDeathReg []bool // per Spawn during which the actor died of max-restarts: was the id still registered when Spawn returned
	Overlap       string // non-empty: two invocations of the target's Receive overlapped in time (C02)
	Diverged      string // non-empty: the run was cut short because the actor contradicted the model
}

type world struct {
	spec     Spec
	e        *actor.Engine
	seq      atomic.Int64
	mu       sync.Mutex
	log      []Entry
	events   []Event
	evCond   *sync.Cond
	evNote   chan struct{}
	probeSeq int

	incs       atomic.Int32
	active     atomic.Int32
	plainState int // deliberately unsynchronised, see rcv.Receive
	overlap    atomic.Value
	pid        *actor.PID
	senders    []*actor.PID
	gateIn     chan struct{}
	gateOut    chan struct{}
	syncCh     chan int
	fenceCh    chan int
	pendGate   atomic.Bool
	helperGo   chan struct{}
	helperDone chan struct{}
	firstSpawn bool
	procFirst  map[int]bool // incarnation numbers that are the first of a process
	chainEnds  map[int]bool // ids of final chain links that have been handled
	childPIDs  [][]*actor.PID
	swapped    map[int]bool
	byst       *actor.PID
}

func (w *world) add(e Entry) {
	w.mu.Lock()
	e.Seq = w.seq.Add(1)
	w.log = append(w.log, e)
	w.mu.Unlock()
}

func (w *world) fromIndex(p *actor.PID) int {
	if p == nil {
		return 0
	}
	for i, s := range w.senders {
		if s == p {
			return i + 1
		}
	}
	if p.Equals(w.pid) {
		return -1
	}
	return -2
}

type rcv struct {
	w   *world
	inc int
}

func (r *rcv) Receive(c *actor.Context) {
	w := r.w
	// C02: invocations of Receive of ONE actor (all incarnations) never overlap.  A gate blocks
	// inside Receive with the counter at 1, so anything delivered meanwhile is caught for certain.
	if n := w.active.Add(1); n > 1 {
		w.overlap.CompareAndSwap(nil, fmt.Sprintf("Receive(%T) of incarnation %d was entered while %d other invocation(s) of Receive of the same actor had not returned",
			c.Message(), r.inc, n-1))
	}
	defer w.active.Add(-1)
	// Receiver state that "needs no synchronisation" (C02): a plain field written by every invocation.
	// In a -race build the detector reports two invocations that are not ordered by happens-before.
	w.plainState++
	for i := 0; i < w.spec.Spin; i++ {
		runtime.Gosched()
	}
	e := Entry{Who: "R", Inc: r.inc, From: w.fromIndex(c.Sender())}
	switch m := c.Message().(type) {
	case actor.Initialized:
		e.Kind = "Initialized"
		w.add(e)
		if r.inc == 1 && w.firstSpawn {
			for i := 0; i < w.spec.InitSends; i++ {
				c.Send(c.PID(), UMsg{ID: InitSendBase + i})
			}
			if w.spec.SpawnSends > 0 {
				close(w.helperGo)
				<-w.helperDone
			}
		}
		if has(w.spec.InitPanics, r.inc) {
			panic(fmt.Sprintf("planned panic in Initialized of incarnation %d", r.inc))
		}
	case actor.Started:
		e.Kind = "Started"
		w.add(e)
		w.mu.Lock()
		first := w.procFirst[r.inc]
		w.mu.Unlock()
		if first && w.spec.Children > 0 {
			var kids []*actor.PID
			for i := 0; i < w.spec.Children; i++ {
				i := i
				kids = append(kids, c.SpawnChild(func() actor.Receiver { return &childRcv{w: w, idx: i, parentInc: r.inc} }, "kid", actor.WithID(fmt.Sprint(i))))
			}
			w.mu.Lock()
			w.childPIDs = append(w.childPIDs, kids)
			w.mu.Unlock()
		} else if !first && w.spec.Children > 0 && w.spec.RespawnKids {
			// a Started handler that spawns its fixed-id children unconditionally: after a restart the
			// ids are taken (the children outlive a restart), the spawns are refused as duplicates,
			// and the live children stay the children of this actor
			for i := 0; i < w.spec.Children; i++ {
				i := i
				c.SpawnChild(func() actor.Receiver { return &childRcv{w: w, idx: 100 + i, parentInc: r.inc} }, "kid", actor.WithID(fmt.Sprint(i)))
			}
		}
		if w.pendGate.CompareAndSwap(true, false) {
			w.gateIn <- struct{}{}
			<-w.gateOut
		}
		if has(w.spec.StartPanics, r.inc) {
			panic(fmt.Sprintf("planned panic in Started of incarnation %d", r.inc))
		}
	case actor.Stopped:
		e.Kind = "Stopped"
		w.add(e)
	case UMsg:
		e.Kind, e.ID, e.MsgOK = "user", m.ID, true
		w.add(e)
		if w.spec.KidSwap && w.spec.Children > 0 {
			w.swapKid(c)
		}
		if w.spec.Replies && e.From >= 1 {
			// the sender is a PID nobody answers to: the reply is a dead letter, the delivery is not
			c.Respond(AckMsg{ID: m.ID})
		}
		if m.Chain > 0 {
			c.Send(c.PID(), UMsg{ID: m.ID + 1, Chain: m.Chain - 1, Link: true})
		} else if m.Link {
			w.mu.Lock()
			w.chainEnds[m.ID] = true
			w.mu.Unlock()
		}
		if m.Panic {
			if m.GateNext {
				w.pendGate.Store(true)
			}
			if m.Internal {
				panic(&actor.InternalError{From: "harness", Err: fmt.Errorf("planned internal error on message %d", m.ID)})
			}
			switch m.PanicVal {
			case 1:
				panic(fmt.Errorf("planned panic on message %d", m.ID))
			case 2:
				panic([]string{"planned panic", fmt.Sprint(m.ID)}) // not comparable
			case 3:
				panic(map[string]int{"planned panic on message": m.ID}) // not comparable
			case 4:
				panic(struct {
					Op     string
					Fields []string
				}{"planned panic", []string{fmt.Sprint(m.ID)}}) // a value type that holds a slice: not comparable
			case 5:
				panic(nil)
			case 6:
				// a nil pointer of the engine's own error type: a panic value like any other
				panic((*actor.InternalError)(nil))
			}
			panic(fmt.Sprintf("planned panic on message %d", m.ID))
		}
	case GateMsg:
		e.Kind = "gate"
		w.add(e)
		w.gateIn <- struct{}{}
		<-w.gateOut
	case SyncMsg:
		e.Kind = "sync"
		e.ID = m.N
		w.add(e)
		w.syncCh <- m.N
	case ProbeMsg:
		e.Kind = "probe"
		e.ID = m.N
		w.add(e)
	default:
		e.Kind = "foreign:" + reflect.TypeOf(c.Message()).String()
		w.add(e)
	}
}

// swapKid (once per process, from inside Receive): the actor looks at its children, its first child
// leaves, and a child with another id takes the place - the number of children is what it was, the
// children are not.  From then on the replacement is what must be stopped with the actor.
func (w *world) swapKid(c *actor.Context) {
	w.mu.Lock()
	n := len(w.childPIDs)
	if n == 0 || w.swapped[n] {
		w.mu.Unlock()
		return
	}
	w.swapped[n] = true
	old := w.childPIDs[n-1][0]
	w.mu.Unlock()
	_ = c.Children()
	select {
	case <-c.Engine().Poison(old).Done():
	case <-time.After(20 * time.Second):
		return
	}
	np := c.SpawnChild(func() actor.Receiver { return &childRcv{w: w, idx: 50 + n, parentInc: 0} }, "kid", actor.WithID(fmt.Sprintf("r%d", n)))
	_ = c.Children()
	w.mu.Lock()
	w.childPIDs[n-1][0] = np
	w.mu.Unlock()
}

type childRcv struct {
	w         *world
	idx       int
	parentInc int
}

func (r *childRcv) Receive(c *actor.Context) {
	e := Entry{Who: fmt.Sprintf("C%d", r.idx), Inc: r.parentInc}
	switch c.Message().(type) {
	case actor.Initialized:
		e.Kind = "Initialized"
	case actor.Started:
		e.Kind = "Started"
	case actor.Stopped:
		e.Kind = "Stopped"
	default:
		e.Kind = "foreign:" + reflect.TypeOf(c.Message()).String()
	}
	r.w.add(e)
}

func (w *world) middleware(i int) actor.MiddlewareFunc {
	who := fmt.Sprintf("M%d", i)
	return func(next actor.ReceiveFunc) actor.ReceiveFunc {
		return func(c *actor.Context) {
			if p := c.PID(); p == nil || p.ID != "target/1" {
				next(c) // the decoy's own deliveries are not part of the observation
				return
			}
			// what the Context shows is read anew on the way out: it is the same delivery
			view := func(phase string) Entry {
				e := Entry{Who: who, Phase: phase, From: w.fromIndex(c.Sender())}
				switch m := c.Message().(type) {
				case actor.Initialized:
					e.Kind = "Initialized"
				case actor.Started:
					e.Kind = "Started"
				case actor.Stopped:
					e.Kind = "Stopped"
				case UMsg:
					e.Kind, e.ID = "user", m.ID
				case GateMsg:
					e.Kind = "gate"
				case SyncMsg:
					e.Kind, e.ID = "sync", m.N
				case ProbeMsg:
					e.Kind, e.ID = "probe", m.N
				default:
					e.Kind = "foreign:" + reflect.TypeOf(c.Message()).String()
				}
				return e
			}
			w.add(view("in"))
			done := false
			defer func() {
				if !done {
					w.add(view("unwound"))
				} else {
					w.add(view("out"))
				}
			}()
			next(c)
			done = true
		}
	}
}

// monitor actor: records the engine's events.
func (w *world) monitor(c *actor.Context) {
	ev := Event{}
	switch m := c.Message().(type) {
	case actor.ActorInitializedEvent:
		ev.Type, ev.PID = "initialized", m.PID.String()
	case actor.ActorStartedEvent:
		ev.Type, ev.PID = "started", m.PID.String()
	case actor.ActorStoppedEvent:
		ev.Type, ev.PID = "stopped", m.PID.String()
	case actor.ActorRestartedEvent:
		ev.Type, ev.PID, ev.Restarts = "restarted", m.PID.String(), m.Restarts
	case actor.ActorMaxRestartsExceededEvent:
		ev.Type, ev.PID = "max_restarts", m.PID.String()
	case actor.ActorDuplicateIdEvent:
		ev.Type, ev.PID = "duplicate", m.PID.String()
	case actor.DeadLetterEvent:
		ev.Type, ev.Target, ev.Msg, ev.Sender = "deadletter", m.Target.String(), m.Message, m.Sender
	case Fence:
		w.fenceCh <- m.N
		return
	default:
		return
	}
	w.mu.Lock()
	ev.Seq = w.seq.Add(1)
	w.events = append(w.events, ev)
	w.evCond.Broadcast()
	w.mu.Unlock()
	select {
	case w.evNote <- struct{}{}:
	default:
	}
}

func (w *world) countEvents(typ, pid string) int {
	n := 0
	for _, ev := range w.events {
		if ev.Type == typ && ev.PID == pid {
			n++
		}
	}
	return n
}

// waitEvents blocks until the monitor has seen n events of the type for the pid.
func (w *world) waitEvents(typ, pid string, n int) error {
	deadline := time.Now().Add(waitLimit)
	timer := time.AfterFunc(waitLimit, func() { w.mu.Lock(); w.evCond.Broadcast(); w.mu.Unlock() })
	defer timer.Stop()
	w.mu.Lock()
	defer w.mu.Unlock()
	for w.countEvents(typ, pid) < n {
		if time.Now().After(deadline) {
			return fmt.Errorf("%w: waiting for %d %q events for %s", ErrInconclusive, n, typ, pid)
		}
		w.evCond.Wait()
	}
	return nil
}

// ErrDiverged: the actor did something the model rules out at this point (died, or a
// sentinel dead-lettered). The run stops early; the property's oracle judges what was seen.
var ErrDiverged = errors.New("actor diverged from the model")

// diverged reports an observable fact that contradicts the model's current state.
func (w *world) diverged(pid string, wantStopped int, probeN int) string {
	w.mu.Lock()
	defer w.mu.Unlock()
	if n := w.countEvents("stopped", pid); n > wantStopped {
		return fmt.Sprintf("the actor stopped %d time(s), the model expects %d at this point", n, wantStopped)
	}
	for _, ev := range w.events {
		if ev.Type == "deadletter" && ev.Target == pid {
			switch m := ev.Msg.(type) {
			case SyncMsg:
				if m.N < 1000000 {
					return "the final sentinel, sent to an actor the model says is alive, became a dead letter"
				}
			case GateMsg:
				return "a gate message sent to an actor the model says is alive became a dead letter"
			}
		}
	}
	return ""
}

// await waits for the gate entry and/or the number of ActorStoppedEvents the model
// predicts, returning early when the actor observably diverges from the model.
//
// While waiting for a death it probes: a sentinel is sent; if the actor handles it, a second
// one is sent. The second one cannot share a batch with anything sent before the first was
// handled, so an actor that handles it has survived the batch that should have stopped it:
// an exact divergence, no timing involved.
func (w *world) await(pid string, gate bool, wantStopped int, sync int, what string) error {
	deadline := time.After(waitLimit)
	probes, probeN := 0, 0
	w.mu.Lock()
	waitDeath := w.countEvents("stopped", pid) < wantStopped
	w.mu.Unlock()
	sendProbe := func() {
		probes++
		w.probeSeq++
		probeN = 1000000 + w.probeSeq
		// (an equal PID in a fresh object, like the follow-up sentinel below)
		w.e.Send(&actor.PID{Address: w.pid.Address, ID: w.pid.ID}, SyncMsg{N: probeN})
	}
	if waitDeath && !gate && sync == 0 {
		sendProbe()
	}
	// Waiting for a sentinel that a live actor must process: if it does not show up soon, a second
	// sentinel is sent from the same goroutine.  Being handled while the first one never was means the
	// first one was lost or overtaken (FIFO per sender holds across restarts and replays) - an exact
	// divergence from the model instead of a timeout.  The delay only decides WHEN to probe.
	follow := 0
	var followTimer <-chan time.Time
	if (sync != 0 || gate) && !waitDeath {
		followTimer = time.After(2 * time.Second)
	}
	for {
		if d := w.diverged(pid, wantStopped, probeN); d != "" {
			return fmt.Errorf("%w: %s (while waiting for %s)", ErrDiverged, d, what)
		}
		w.mu.Lock()
		have := w.countEvents("stopped", pid)
		w.mu.Unlock()
		if !gate && sync == 0 && have >= wantStopped {
			return nil
		}
		select {
		case <-w.gateIn:
			if !gate {
				return fmt.Errorf("%w: the actor entered a gate the model does not predict (while waiting for %s)", ErrDiverged, what)
			}
			gate = false
		case n := <-w.syncCh:
			if n == sync && sync != 0 {
				sync = 0
			}
			if follow != 0 && n == follow && sync != 0 {
				return fmt.Errorf("%w: a sentinel sent after sentinel %d was handled, sentinel %d itself never was: it was lost or overtaken (while waiting for %s)", ErrDiverged, sync, sync, what)
			}
			if follow != 0 && n == follow && gate {
				return fmt.Errorf("%w: a sentinel sent after the gate message was handled, yet the actor never entered the gate: the gate message (or the Started gate) was lost or overtaken (while waiting for %s)", ErrDiverged, what)
			}
			if n == probeN && probeN != 0 {
				if probes >= 2 {
					return fmt.Errorf("%w: the actor is still handling messages sent after the batch that should have stopped it (while waiting for %s)", ErrDiverged, what)
				}
				sendProbe()
			}
		case <-w.evNote:
		case <-followTimer:
			followTimer = nil
			if sync != 0 || gate {
				w.probeSeq++
				follow = 2000000 + w.probeSeq
				// through an equal PID held in ANOTHER object: it names the same actor, so the order of the
				// two sends holds - whatever the engine remembers about the object used so far
				w.e.Send(&actor.PID{Address: w.pid.Address, ID: w.pid.ID}, SyncMsg{N: follow})
			}
		case <-deadline:
			// Slow, or never?  Measured against the engine instead of the clock (as in props/eng): the
			// actor is registered and has been sent what it is waited for; a bystander actor on the same
			// engine answers 300 requests issued now, one after the other; if the actor has still not
			// moved after that, it rests with unprocessed messages.  Not while shrinking (short limits).
			if waitLimit >= 30*time.Second && w.byst != nil && !waitDeath && w.e.Registry.GetPID("target", "1") != nil {
				for i := 0; i < 300; i++ {
					if r, err := w.e.Request(w.byst, SyncMsg{N: 0}, 10*time.Second).Result(); err != nil || r != "pong" {
						return fmt.Errorf("%w: %s (and the bystander did not answer either)", ErrInconclusive, what)
					}
				}
				select {
				case <-w.gateIn:
				case <-w.syncCh:
				case <-time.After(2 * time.Second):
					return fmt.Errorf("%w: the actor is registered and was sent what it is waited for (%s); %v later, and after a bystander actor on the same engine has answered 300 requests, it has still not handled it: the messages rest unprocessed in its inbox - lost or overtaken for good", ErrDiverged, what, waitLimit)
				}
			}
			return fmt.Errorf("%w: %s", ErrInconclusive, what)
		}
	}
}

func recvTimeout[T any](ch chan T, what string) (T, error) {
	select {
	case v := <-ch:
		return v, nil
	case <-time.After(waitLimit):
		var z T
		return z, fmt.Errorf("%w: %s", ErrInconclusive, what)
	}
}

// Run executes the history on a fresh engine and returns what was observed together
// with the reference model's expectations.
func Run(spec Spec, waitOrphans bool) (*Obs, *Sim, error) {
	e, err := actor.NewEngine(actor.NewEngineConfig())
	if err != nil {
		return nil, nil, fmt.Errorf("harness: %v", err)
	}
	w := &world{spec: spec, e: e, gateIn: make(chan struct{}, 1), gateOut: make(chan struct{}),
		syncCh: make(chan int, 16), fenceCh: make(chan int, 16), helperGo: make(chan struct{}),
		helperDone: make(chan struct{}), procFirst: map[int]bool{}, chainEnds: map[int]bool{}, swapped: map[int]bool{}}
	w.evCond = sync.NewCond(&w.mu)
	w.evNote = make(chan struct{}, 1)
	for i := 0; i < 3; i++ {
		w.senders = append(w.senders, actor.NewPID("local", fmt.Sprintf("sender/%d", i)))
	}
	mon := e.SpawnFunc(w.monitor, "monitor", actor.WithID("m"))
	e.Subscribe(mon)
	byst := e.SpawnFunc(func(c *actor.Context) {
		if _, ok := c.Message().(SyncMsg); ok {
			c.Respond("pong")
		}
	}, "bystander", actor.WithID("b"))
	w.byst = byst

	sim := NewSim(spec)
	obs := &Obs{PillDone: map[int]bool{}}
	fenceN := 0
	fence := func() error {
		fenceN++
		e.BroadcastEvent(Fence{N: fenceN})
		for {
			n, err := recvTimeout(w.fenceCh, "event fence")
			if err != nil {
				return err
			}
			if n == fenceN {
				return nil
			}
		}
	}

	var mws []actor.MiddlewareFunc
	for i := 0; i < spec.Chain; i++ {
		mws = append(mws, w.middleware(i))
	}
	producer := func() actor.Receiver {
		return &rcv{w: w, inc: int(w.incs.Add(1))}
	}
	spawnDiverged := ""
	var sharedOpt, sharedOpt2 actor.OptFunc
	var decoy *actor.PID
	spawn := func(first bool) {
		w.firstSpawn = first
		w.mu.Lock()
		w.procFirst[int(w.incs.Load())+1] = true
		w.mu.Unlock()
		opts := []actor.OptFunc{actor.WithID("1"), actor.WithMaxRestarts(spec.MaxRestarts), actor.WithRestartDelay(0)}
		if spec.InboxSize > 0 {
			opts = append(opts, actor.WithInboxSize(spec.InboxSize))
		}
		if len(mws) > 0 {
			if spec.Split > 0 && spec.Split < len(mws) {
				// the first option is built from a slice with spare capacity and is REUSED for a second
				// actor below: an option value must not share state with the actors configured by it
				if sharedOpt == nil {
					base := make([]actor.MiddlewareFunc, spec.Split, spec.Split+4)
					copy(base, mws[:spec.Split])
					sharedOpt = actor.WithMiddleware(base...)
				}
				// ... and the second option value is the same one for every spawn of the history (an opts
				// slice built once and used for a pool of workers, or for every respawn)
				if sharedOpt2 == nil {
					sharedOpt2 = actor.WithMiddleware(mws[spec.Split:]...)
				}
				opts = append(opts, sharedOpt, sharedOpt2)
			} else {
				if sharedOpt2 == nil {
					sharedOpt2 = actor.WithMiddleware(mws...)
				}
				opts = append(opts, sharedOpt2)
			}
			if spec.EmptyMW {
				// optional extras, none configured: an empty option after the real ones changes nothing
				opts = append(opts, actor.WithMiddleware())
			}
		}
		switch spec.SpawnCtx {
		case "live":
			opts = append(opts, actor.WithContext(context.WithValue(context.Background(), ctxKey{}, "live")))
		case "cancelled":
			cctx, cancel := context.WithCancel(context.Background())
			cancel()
			opts = append(opts, actor.WithContext(cctx))
		}
		if first && spec.SpawnSends > 0 {
			go func() {
				<-w.helperGo
				for i := 0; i < spec.SpawnSends; i++ {
					e.Send(actor.NewPID("local", "target/1"), UMsg{ID: SpawnSendBase + i})
				}
				close(w.helperDone)
			}()
		}
		w.pendGate.Store(false)
		got := e.Spawn(producer, "target", opts...)
		if !got.Equals(w.pid) {
			panic("harness: unexpected pid " + got.String())
		}
		if sharedOpt != nil && decoy == nil {
			// a bystander configured with the same first option plus a middleware of its own; that
			// middleware must never see a delivery of the target
			decoy = e.SpawnFunc(func(*actor.Context) {}, "decoy", actor.WithID("1"), sharedOpt, actor.WithMiddleware(w.middleware(99)))
		}
		w.mu.Lock()
		obs.SpawnLogLen = append(obs.SpawnLogLen, len(w.log))
		w.mu.Unlock()
		sim.Spawn(first)
		if !sim.Alive {
			// The actor exhausted its restart budget inside its own start-up.  All of that - the
			// panics, ActorMaxRestartsExceededEvent, the clean-up - runs synchronously on the goroutine
			// that called Spawn, so the registry can be judged here without waiting for anything.
			reg := e.Registry.GetPID("target", "1") != nil
			obs.SpawnDeathReg = append(obs.SpawnDeathReg, reg)
			if reg {
				spawnDiverged = "Spawn returned after the actor had exceeded MaxRestarts in its start-up, and the id is still registered"
			}
		}
	}
	w.pid = actor.NewPID("local", "target/1")
	spawn(true)
	pidStr := w.pid.String()

	type pillRun struct {
		p    *Pill
		ctx  context.Context
		done chan struct{}
	}
	var pills []*pillRun
	syncN := 0

	// settle brings the driver in step with the model after an op: wait for the gate the
	// model says the actor runs into, or for the death the model predicts.
	deaths := 0
	var chainFinals []int // ids of the final links of the chains sent so far
	expIdx := 0
	expectedUser := map[int]bool{}
	chainsDone := func() error {
		// A self-feeding chain runs asynchronously.  The model runs it to completion before the next
		// driver op, so the driver must not send anything while a chain that the model has already
		// finished is still running in the engine (its links queue up behind whatever is sent).
		for ; expIdx < len(sim.Exp); expIdx++ {
			if sim.Exp[expIdx].Kind == "user" {
				expectedUser[sim.Exp[expIdx].ID] = true
			}
		}
		deadline := time.Now().Add(waitLimit)
		started := time.Now()
		probed := false
		for _, id := range chainFinals {
			if !expectedUser[id] {
				continue
			}
			for {
				w.mu.Lock()
				ok := w.chainEnds[id]
				w.mu.Unlock()
				if ok {
					break
				}
				if time.Now().After(deadline) {
					return fmt.Errorf("%w: the self-feeding chain ending in message %d did not finish", ErrInconclusive, id)
				}
				if time.Since(started) > 2*time.Second && !probed {
					// Slow or broken?  Exactly one link is in flight at any time, and it is queued before
					// any probe sent after the previous probe was handled; so every probe round trip moves a
					// live chain forward by at least one link.  After more round trips than the chain has
					// links the final link must have been handled - otherwise links were lost.
					probed = true
					for r := 0; r < 400; r++ {
						w.probeSeq++
						pn := 3000000 + w.probeSeq
						e.Send(w.pid, SyncMsg{N: pn})
						for {
							n, err := recvTimeout(w.syncCh, "probe behind a stalled chain")
							if err != nil {
								return err
							}
							if n == pn {
								break
							}
						}
					}
					w.mu.Lock()
					ok = w.chainEnds[id]
					w.mu.Unlock()
					if !ok {
						return fmt.Errorf("%w: the self-feeding chain ending in message %d stopped: 400 later messages were handled, one after the other, and its final link still was not (links were lost or the actor rests with them queued)", ErrDiverged, id)
					}
					break
				}
				time.Sleep(200 * time.Microsecond)
			}
		}
		return nil
	}
	settle := func() error {
		if !sim.Gated && sim.Alive {
			if err := chainsDone(); err != nil {
				return err
			}
		}
		gate := sim.TakeGateReached()
		died := len(sim.Deaths) > deaths
		if gate || died {
			if err := w.await(pidStr, gate, sim.StoppedEv, 0, "the gate / death the model predicts"); err != nil {
				return err
			}
		}
		if died {
			deaths = len(sim.Deaths)
			// the parent's ActorStoppedEvent is published after its children were stopped
			w.mu.Lock()
			var kids []*actor.PID
			if spec.Children > 0 && len(w.childPIDs) > 0 {
				kids = w.childPIDs[len(w.childPIDs)-1]
			}
			w.mu.Unlock()
			var rn []bool
			for _, k := range kids {
				rn = append(rn, e.Registry.GetPID(kindOf(k.ID), idOf(k.ID)) == nil)
			}
			obs.ChildRegNil = append(obs.ChildRegNil, rn)
			obs.TargetRegNil = append(obs.TargetRegNil, e.Registry.GetPID("target", "1") == nil)
		}
		return nil
	}
	drive := func() error {
		if spawnDiverged != "" {
			return fmt.Errorf("%w: %s", ErrDiverged, spawnDiverged)
		}
		if err := settle(); err != nil {
			return err
		}

		for i, op := range spec.Ops {
			switch op.K {
			case "send":
				n := op.N
				if n < 1 {
					n = 1
				}
				var from *actor.PID
				if op.From > 0 {
					from = w.senders[op.From-1]
				}
				for k := 0; k < n; k++ {
					e.SendWithSender(w.pid, UMsg{ID: op.ID + k, Panic: op.Panic && n == 1, Internal: op.Internal && op.Panic && n == 1, GateNext: op.GateNext && n == 1, Chain: chainOf(op, n), PanicVal: op.PanicVal}, from)
				}
				if c := chainOf(op, n); c > 0 {
					chainFinals = append(chainFinals, op.ID+c)
				}
				sim.Send(op)
			case "gate":
				if sim.Gated || !sim.Alive {
					return fmt.Errorf("harness: op %d: gate while gated or dead (case not normalised)", i)
				}
				e.Send(w.pid, GateMsg{N: i})
				sim.SendGate()
			case "release":
				if !sim.Gated {
					return fmt.Errorf("harness: op %d: release while not gated (case not normalised)", i)
				}
				sim.Release()
				w.gateOut <- struct{}{}
			case "poison", "stop":
				var ctx context.Context
				if op.K == "poison" {
					ctx = e.Poison(w.pid)
				} else {
					ctx = e.Stop(w.pid)
				}
				p := sim.SendPill(op.K == "poison")
				pr := &pillRun{p: p, ctx: ctx, done: make(chan struct{})}
				pills = append(pills, pr)
				go func() {
					<-ctx.Done()
					regNil := e.Registry.GetPID("target", "1") == nil
					w.add(Entry{Who: fmt.Sprintf("ctx%d", p.Idx), Kind: "done", RegNil: regNil})
					e.Send(w.pid, ProbeMsg{N: p.Idx})
					close(pr.done)
				}()
			case "respawn":
				if sim.Alive || sim.Gated {
					return fmt.Errorf("harness: op %d: respawn while alive (case not normalised)", i)
				}
				// every context that the model expects to complete has been observed, so a late
				// watcher cannot mistake the new process for the old one
				for _, pr := range pills {
					if pr.p.Fate == "effective" || pr.p.Fate == "dead" || (pr.p.Fate == "orphan" && waitOrphans) {
						select {
						case <-pr.done:
						case <-time.After(waitLimit):
							return fmt.Errorf("%w: context of pill %d before respawn", ErrInconclusive, pr.p.Idx)
						}
					} else if pr.p.Fate == "orphan" {
						// not this check's business whether it completes (C07's), but if it does its watcher sends a
						// probe to the id: give it the chance to do so before the id belongs to somebody else
						select {
						case <-pr.done:
						case <-time.After(time.Second):
						}
					}
				}
				if err := fence(); err != nil {
					return err
				}
				spawn(false)
				if spawnDiverged != "" {
					return fmt.Errorf("%w: %s", ErrDiverged, spawnDiverged)
				}
			default:
				return fmt.Errorf("harness: unknown op %q", op.K)
			}
			if err := settle(); err != nil {
				return err
			}
		}
		if sim.Gated {
			return fmt.Errorf("harness: history ends gated (case not normalised)")
		}
		// final quiescence
		if sim.Alive {
			syncN++
			e.Send(w.pid, SyncMsg{N: syncN})
			if err := w.await(pidStr, false, sim.StoppedEv, syncN, "the final sentinel to be processed by the live actor"); err != nil {
				return err
			}
		}
		return nil
	}
	if err := drive(); err != nil {
		if !errors.Is(err, ErrDiverged) {
			return nil, nil, err
		}
		obs.Diverged = err.Error()
		close(w.gateOut) // let a gated receiver go
	}
	// contexts: effective and dead pills must complete (grace period: the actor is known to
	// be stopped, nothing can delay cancel() except goroutine scheduling)
	for _, pr := range pills {
		grace := 5 * time.Second
		if pr.p.Fate == "orphan" && !waitOrphans {
			grace = time.Second // see the respawn case: let a completing watcher finish before the log is read
		}
		if obs.Diverged != "" {
			grace = 200 * time.Millisecond
		}
		select {
		case <-pr.done:
			obs.PillDone[pr.p.Idx] = true
		case <-time.After(grace):
			obs.PillDone[pr.p.Idx] = false
		}
	}
	// the watchers' probes may have gone to a live (respawned) target: flush its inbox, so that the log
	// is not read in the middle of a delivery
	if sim.Alive && obs.Diverged == "" && len(pills) > 0 {
		syncN++
		e.Send(w.pid, SyncMsg{N: syncN})
		if err := w.await(pidStr, false, sim.StoppedEv, syncN, "the sentinel behind the watchers' probes"); err != nil && !errors.Is(err, ErrDiverged) {
			return nil, nil, err
		}
	}
	// bystander + process still alive
	if r, err := e.Request(byst, SyncMsg{N: 0}, 10*time.Second).Result(); err == nil && r == "pong" {
		obs.BystanderOK = true
	}
	if err := fence(); err != nil {
		return nil, nil, err
	}
	obs.FinalRegNil = e.Registry.GetPID("target", "1") == nil
	obs.Overlap, _ = w.overlap.Load().(string)
	w.mu.Lock()
	obs.Log = append([]Entry(nil), w.log...)
	obs.Events = append([]Event(nil), w.events...)
	obs.ChildPIDs = w.childPIDs
	w.mu.Unlock()
	obs.PID = w.pid
	obs.Senders = w.senders
	// leave nothing running: stop a live actor, unsubscribe and stop the monitor
	if sim.Alive && obs.Diverged == "" {
		<-e.Poison(w.pid).Done()
	}
	e.Unsubscribe(mon)
	<-e.Poison(mon).Done()
	<-e.Poison(byst).Done()
	if decoy != nil {
		<-e.Poison(decoy).Done()
	}
	return obs, sim, nil
}

func kindOf(id string) string {
	for i := len(id) - 1; i >= 0; i-- {
		if id[i] == '/' {
			return id[:i]
		}
	}
	return ""
}

func idOf(id string) string {
	for i := len(id) - 1; i >= 0; i-- {
		if id[i] == '/' {
			return id[i+1:]
		}
	}
	return id
}
