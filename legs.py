"""Per-property leg table for ./check.  A leg = one test of one props package, run with a
number of generated cases per tier, optionally sharded over processes (distinct PRNG values)."""

def rapid(name, pkg, test, q, t, shards=(1, 1), **kw):
    d = {"name": name, "pkg": pkg, "test": test, "kind": "rapid",
         "checks": {"quick": q, "thorough": t}, "shards": {"quick": shards[0], "thorough": shards[1]}}
    d.update(kw)
    return d

def plain(name, pkg, test, **kw):
    d = {"name": name, "pkg": pkg, "test": test, "kind": "plain"}
    d.update(kw)
    return d

def fuzz(name, pkg, test, secs, **kw):
    d = {"name": name, "pkg": pkg, "test": test, "kind": "fuzz", "tiers": ("thorough",),
         "fuzztime": {"thorough": secs}}
    d.update(kw)
    return d

PROPS = {}

PROPS["C14"] = {
    "id": "C14", "level": "exploration",
    "rule": "generated op sequences (push/pop/popn(n>=0)/len, initial capacity 1..16) against a slice model, "
            "checked after every op and by a final drain; plus bounded-exhaustive enumeration of short sequences; "
            "plus concurrent scripts on real goroutines whose call/return history is checked for linearizability "
            "(porcupine).  Non-trivial = the ring grew while head != 0, or a PopN spanned the wrap-around "
            "(sequential legs); an overlap of operations of two goroutines was observed (concurrent leg).  "
            "Distinct = distinct canonical JSON of the case.",
    "assumptions": ["PopN is only called with n >= 0", "initial capacity >= 1",
                    "the concurrent leg samples interleavings produced by the Go runtime on 16 cores; it does not own the schedule"],
    "technique": "model-based property testing (rapid) against a slice FIFO model; bounded exhaustive enumeration; linearizability checking of generated concurrent histories (porcupine); native fuzzing",
    "level_text": "Generated-input search: every explored op sequence agrees with a reference FIFO model after every step; short sequences are enumerated completely; concurrent histories from real goroutines are checked for linearizability. No proof; interleavings are sampled, not owned.",
    "level_note": "trusts the slice model, porcupine's checker, and that PopN is called with n>=0 and capacity>=1",
    "legs": [
        rapid("seq", "c14", "TestSeqModel", 20000, 250000, shards=(1, 8)),
        plain("exh", "c14", "TestSeqExhaustive"),
        rapid("lin", "c14", "TestConcurrentLin", 1500, 5000, shards=(2, 8)),
        fuzz("fuzz", "c14", "FuzzRing", 60),
    ],
}

# properties not (yet) claimed; kept current by hand
NOT_APPLICABLE = [
    {"property_id": pid, "reason": "check under construction in this session - not yet claimed"}
    for pid in ["C%02d" % i for i in range(1, 21)] if pid not in PROPS
]
