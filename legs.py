"""Per-property leg table for ./check.  A leg = one test of one props package, run with a
number of generated cases per tier, optionally sharded over processes (distinct PRNG values)."""

def rapid(name, pkg, test, q, t, shards=(1, 1), **kw):
    d = {"name": name, "pkg": pkg, "test": test, "kind": "rapid",
         "checks": {"quick": q, "thorough": t}, "shards": {"quick": shards[0], "thorough": shards[1]}}
    d.update(kw)
    return d

def plain(name, pkg, test, **kw):
    d = {"name": name, "pkg": pkg, "test": test, "kind": "plain"}
    d.update(kw)
    return d

def fuzz(name, pkg, test, secs, **kw):
    d = {"name": name, "pkg": pkg, "test": test, "kind": "fuzz", "tiers": ("thorough",),
         "fuzztime": {"thorough": secs}}
    d.update(kw)
    return d

PROPS = {}

PROPS["C14"] = {
    "id": "C14", "level": "exploration",
    "rule": "generated op sequences (push/pop/popn(n>=0)/len, initial capacity 1..16) against a slice model, "
            "checked after every op and by a final drain; plus bounded-exhaustive enumeration of short sequences; "
            "plus concurrent scripts on real goroutines whose call/return history is checked for linearizability "
            "(porcupine).  Non-trivial = the ring grew while head != 0, or a PopN spanned the wrap-around "
            "(sequential legs); an overlap of operations of two goroutines was observed (concurrent leg).  "
            "Distinct = distinct canonical JSON of the case.",
    "assumptions": ["PopN is only called with n >= 0", "initial capacity >= 1  "
            "Round 3 addition (lenb leg): producers, consumers using generated PopN sizes (up to 2^40) and observer goroutines reading Len(): 0 <= Len() <= pushes started - elements popped by completed pops, and >= pushes completed - the most started pops can remove.",
                    "the concurrent leg samples interleavings produced by the Go runtime on 16 cores; it does not own the schedule"],
    "technique": "model-based property testing (rapid) against a slice FIFO model; bounded exhaustive enumeration; linearizability checking of generated concurrent histories (porcupine); native fuzzing",
    "level_text": "Generated-input search: every explored op sequence agrees with a reference FIFO model after every step; short sequences are enumerated completely; concurrent histories from real goroutines are checked for linearizability. No proof; interleavings are sampled, not owned.",
    "level_note": "trusts the slice model, porcupine's checker, and that PopN is called with n>=0 and capacity>=1",
    "legs": [
        rapid("seq", "c14", "TestSeqModel", 20000, 250000, shards=(1, 8)),
        plain("exh", "c14", "TestSeqExhaustive"),
        rapid("lin", "c14", "TestConcurrentLin", 1500, 5000, shards=(2, 8)),
        rapid("lenb", "c14", "TestLenBounds", 150, 1500, shards=(2, 8)),
        fuzz("fuzz", "c14", "FuzzRing", 60),
    ],
}


LIFE_ASSUME = [
    "one driver goroutine is the only sender; batch geometry is fixed with gates (a receiver blocked in Receive), so the reference model (internal/life/sim.go) is exact",
    "RestartDelay is 0; a panic inside a Stopped handler is not generated (it is outside the properties)",
    "bounded waits (30 s) only ever yield 'inconclusive' (exit 2), never a verdict",
]

PROPS["C04"] = {
    "id": "C04", "level": "exploration",
    "rule": "generated single-actor histories (sends, panicking sends, gates/releases that fix what is queued together, Stop, Poison, "
            "respawn; planned panics in Initialized/Started; sends issued from inside Initialized and from a second goroutine while "
            "Initialized runs) executed on the real engine; per incarnation the receiver trace must match "
            "Initialized (Started msg*)? Stopped? with nothing after Stopped, agree with the reference model on which incarnations "
            "exist / were started / ended, deliver spawn-time sends after Started, and have handled Started when Spawn returns.  "
            "Non-trivial = history has >=1 stop request and >=1 crash, or a send issued before Started was handled.  Distinct = canonical JSON.  "
            "Schedule-owning legs (package actor rewritten, one managed thread at a time): 1..3 sender threads issue up to 7 sends / panicking sends / Stop / Poison against one actor "
            "(MaxRestarts 0..3, inbox 1..4) under a generated schedule - uniform choices, or a priority schedule with up to 4 priority change points (PCT) - and, for 6 two-sender configurations, "
            "under EVERY schedule with <= 1 preemption (quick; plus the first 6 000 with <= 2) or <= 2 preemptions (thorough, 60 000..190 000 schedules each, complete).  At quiescence (no runnable "
            "thread - a fact, not a timeout): every incarnation's log is Initialized, Started, messages, at most one Stopped and nothing behind it; a replaced incarnation was told Stopped; with a stop "
            "request issued the actor is unregistered and its last incarnation ended with Stopped.",
    "technique": "model-based property testing (rapid) of generated single-actor histories against a reference lifecycle model; schedule-owning legs (vsched: uniform and priority (PCT) schedules, preemption-bounded enumeration) for Send||Stop||Poison||crash interleavings",
    "level_text": "Generated-history search against an exact reference model of the lifecycle; schedules of the inbox hand-off are explored by the vsched leg. Sampling, not proof.",
    "level_note": "trusts internal/life/sim.go as the reading of the property; single-driver histories (concurrency of senders is covered by the vsched leg and C01/C07 legs)",
    "assumptions": LIFE_ASSUME,
    "legs": [rapid("life", "c04", "TestLifecycle", 4000, 60000, shards=(2, 12)),
             rapid("sched", "sched", "TestLifecycleSchedules", 3000, 60000, shards=(2, 12), flavour="sched"),
             plain("sdfs", "sched", "TestLifecycleDFS", flavour="sched", shards={"quick": 1, "thorough": 6}, timeout={"quick": 600, "thorough": 3000})],
}

PROPS["C05"] = {
    "id": "C05", "level": "fault_enumeration", "death_is_violation": True,
    "rule": "generated single-actor histories in which every position of the panicking message inside a queued window, panics in "
            "Initialized/Started of any incarnation, repeated failures inside the restart budget and failures during the replay of the "
            "restart buffer occur; user deliveries (incarnation, id) must equal the reference model's (no loss, duplication, reordering, "
            "no redelivery of the failing message, tail ahead of later sends), each failed incarnation ends with Stopped, a fresh receiver is "
            "Initialized+Started, ActorRestartedEvent.Restarts counts 1..n, a bystander actor still answers.  "
            "Non-trivial = failing message neither first nor last of its window, or >=2 failures, or a failure during replay.  "
            "Delay leg: RestartDelay 0..20 ms, a batch of 1..12 messages of which 1..3 panic on their first delivery, and a second goroutine that - woken by the Stopped the failed incarnation is told - "
            "sends 0..5 messages per crash while the actor sits out its delay (or replays), plus 0..4 after the last restart: the deliveries must be batch-up-to-failure per incarnation, the tail without "
            "the failed message, then everything sent after the crash in its own order; non-trivial = sends during a non-zero delay.",
    "technique": "fault-position enumeration + model-based property testing (rapid) against a reference restart/replay model",
    "level_text": "Fault enumeration by generation: the crash point (position in batch, lifecycle handler, repetition, replay) is a generated input and the outcome is compared with an exact model.",
    "level_note": "trusts internal/life/sim.go; restart delay 0 in the model-exact leg, real restart delays with a concurrent sender in the delay leg (order oracle only, no timing)",
    "assumptions": LIFE_ASSUME,
    "legs": [rapid("life", "c05", "TestCrashReplay", 4000, 60000, shards=(2, 12)),
             rapid("delay", "c05", "TestRestartDelay", 300, 6000, shards=(2, 12))],
}

PROPS["C06"] = {
    "id": "C06", "level": "fault_enumeration", "death_is_violation": True,
    "rule": "complete enumeration of MaxRestarts 0..4 x 8 placements of the budget-exhausting panic (un-gated, first/middle/last of a queued "
            "window, during replay, in Started, in Initialized, in Started after a restart) x 5 kinds of content queued behind it x {0,2} children, "
            "plus generated histories; restarts <= budget, exactly one ActorMaxRestartsExceededEvent, actor and children stopped (children first) "
            "and unregistered, later sends dead-letter exactly once with target/message/sender, the id can be respawned, a bystander still answers, "
            "the test process survives (a dead process is a violation; the journaled case is the replay).  Non-trivial = the budget was exhausted.  "
            "Round 3 additions: panics with *actor.InternalError (restart that neither counts nor is published); for an actor that exhausts its budget inside Spawn the registry is judged when Spawn returns (all synchronous).  "
            "Round 4 additions: Started handlers that spawn their fixed-id children again after every restart (refused as duplicates): the live children must still be stopped and unregistered with the actor.  "
            "Family leg (round 7): a parent (budget 0..3, last panic in a message or in Started) exhausts its budget while 1..4 children (budgets 0..2) are busy behind gates with 0..budget+1 panicking messages and plain "
            "messages queued - so a child can exhaust its own budget while the dying parent's pill for it is pending; once every child has published ActorStoppedEvent the parent must finish within 10 s (nothing but "
            "goroutine scheduling is left), then: all unregistered, later sends dead-letter exactly once, exactly one ActorMaxRestartsExceededEvent for the parent and for each child with more panics than budget, "
            "restarts = min(panics, budget) each, Stopped handled restarts+1 times, children's last Stopped before the parent's, a bystander answers; non-trivial = a child was busy when the parent died.  "
            "The small families are also enumerated completely (family-enum: parent budget 0..2 x message/Started x child budget 0..2 x 0..budget+1 panics x busy/idle x 3 pauses x with/without an idle sibling = 540 cases).",
    "technique": "complete fault enumeration over (budget, crash placement, queue content, children) + model-based property testing (rapid)",
    "level_text": "The small fault spaces are enumerated completely (400 single-actor cases, 540 parent-and-children cases); generated histories and families extend them. Outcome compared with an exact model.",
    "level_note": "trusts internal/life/sim.go; a panic inside a Stopped handler is not generated",
    "assumptions": LIFE_ASSUME,
    "legs": [plain("enum", "c06", "TestMaxRestartsEnum"),
             rapid("life", "c06", "TestMaxRestarts", 3000, 50000, shards=(2, 12)),
             rapid("family", "c06", "TestMaxRestartsFamily", 1500, 30000, shards=(2, 12)),
             plain("family-enum", "c06", "TestMaxRestartsFamilyEnum")],
}

PROPS["C07"] = {
    "id": "C07", "level": "exploration",
    "rule": "generated single-actor histories with Stop/Poison calls at generated positions of a queued window (gates), before/behind "
            "panicking messages, for live, already stopped and respawned actors; a watcher goroutine per context records a global sequence number "
            "at Done, reads the registry and sends a probe.  At Done: Stopped already handled, id unregistered, probe dead-letters (once) and is never "
            "delivered, every message the model says is handled before the stop was handled earlier; which messages behind a pill are handled equals "
            "the model (Poison drains its batch, Stop drops); no message of a foreign (engine-private) type reaches Receive or the middleware.  "
            "Non-trivial = >=2 pills, or a pill with messages on both sides in one window, or a pill meeting a crash.  "
            "A request whose pill is not the one that stops the actor (second and later requests, pills pending at a max-restarts death) must be done after the final Stopped as well; "
            "its drain clause is not judged (what it queued behind is decided by the request that did stop the actor).  "
            "Concurrent leg: 2..6 callers (Stop/Poison/PoisonCtx) released by a barrier against one actor, next to senders, a backlog behind a gate, a crash with budget 0 and a Stopped "
            "handler of generated duration; for every context: done within 5 s of the actor being observed stopped and unregistered, at Done the Stopped handler has finished and the id is "
            "unregistered, the probe sent afterwards dead-letters exactly once; Stopped handled exactly once; non-trivial = >=2 callers plus senders, backlog, crash or a slow Stopped handler.  "
            "Schedule-owning legs (same runs as C04's): whenever a context is observed done (after every call, at every Receive entry and exit, at quiescence) the actor's Stopped handler has returned and "
            "the id is unregistered; at quiescence EVERY context is done - the liveness clause decided exactly, for generated schedules and for all schedules with a bounded number of preemptions.",
    "technique": "model-based property testing (rapid) with context watchers and dead-letter probes; generated concurrent stop-request races on real goroutines; schedule-owning legs (vsched: uniform + PCT schedules, preemption-bounded enumeration) that decide 'every context is eventually done' at quiescence",
    "level_text": "Generated-history search against an exact model of drain/stop semantics; 'every caller is signalled' is checked for every request, whichever of them stops the actor.",
    "level_note": "trusts internal/life/sim.go; 'eventually done' is decided only once the actor is known to be stopped (5 s grace after ActorStoppedEvent was observed)",
    "assumptions": LIFE_ASSUME + ["concurrent leg: the interleaving of the callers with the clean-up is sampled by the Go runtime (generated spin counts only bias it)"],
    "legs": [plain("known", "c07", "TestKnownF7"),
             rapid("life", "c07", "TestStopPoison", 3000, 50000, shards=(2, 12)),
             rapid("conc", "c07", "TestConcurrentStops", 1500, 20000, shards=(2, 8)),
             rapid("reuse", "c07", "TestStopReuse", 600, 6000, shards=(1, 4)),
             rapid("unknown", "c07", "TestStopUnknown", 300, 3000, shards=(1, 2)),
             rapid("sched", "sched", "TestStopSchedules", 3000, 60000, shards=(2, 12), flavour="sched"),
             plain("sdfs", "sched", "TestStopDFS", flavour="sched", shards={"quick": 1, "thorough": 6}, timeout={"quick": 600, "thorough": 3000})],
}

PROPS["C13"] = {
    "id": "C13", "level": "exploration",
    "rule": "generated single-actor histories with middleware chains of length 0..4 on all delivery paths (spawn, user message, crash, restart, "
            "stop, poison, max-restarts); every receiver delivery must be bracketed by M0.in .. Mk-1.in and Mk-1.out .. M0.out (out or unwound by the panic), "
            "each exactly once, all layers seeing the same message and sender as the receiver, user messages with the sender given at the send.  "
            "Non-trivial = chain length >= 2 and the history contains a crash.  "
            "Round 3 additions: the chain handed over in two WithMiddleware options at a generated split; the first option value is reused for a bystander actor with a middleware of its own, which must never see a delivery of the target; spawn contexts (none / live / cancelled); panics with *actor.InternalError (restart outside the budget).  "
            "Round 4 additions: every middleware reads message and sender from the Context again on its way out; receivers that answer messages with Context.Respond.",
    "technique": "property-based testing (rapid) of generated histories with logging middleware; bracket-structure oracle over the totally ordered log",
    "level_text": "Generated-history search; the oracle is a structural invariant over the delivery log.",
    "level_note": "middleware functions are pure loggers; a lifecycle delivery of the engine must show no sender (since F25), a user message of any value - lifecycle types and nil included - the sender it was sent with",
    "assumptions": LIFE_ASSUME,
    "legs": [rapid("life", "c13", "TestMiddleware", 3000, 50000, shards=(2, 12)),
             rapid("values", "c13", "TestMessageValues", 1500, 20000, shards=(1, 6))],
}

WIRE_ASSUME = [
    "the writer and reader are the real ones, built through the export shim; the DRPC transport is replaced by a fake stream that marshals and unmarshals every Envelope with the generated vtproto code",
    "the receiving engine hosts synchronous recording Processers (SpawnProc); everything runs on one goroutine",
]

PROPS["C15"] = {
    "id": "C15", "level": "exploration",
    "rule": "generated cases of 1..3 batches of 1..24 messages over 5 targets, 9 senders (none, equal PIDs in distinct objects, PIDs that differ "
            "only in the address/id split) and 4 registered message types, with unserialisable payloads (proto with invalid UTF-8, non-proto Go values) "
            "at generated positions; each batch goes through streamWriter.Invoke, the marshalled envelope through streamReader.Receive; the deliveries must "
            "equal the serialisable messages in order, each at its own target, proto.Equal payload of the same type, same sender (nil stays nil); nothing may "
            "panic.  Non-trivial = one batch has >=2 targets, >=2 senders including none, and >=2 message types.  Distinct = canonical JSON.  "
            "Round 4 additions: one batch in four has 8..96 messages over up to 45 distinct targets and 49 distinct senders.",
    "technique": "round-trip property testing (rapid) of the real stream writer and reader over a marshalling fake stream",
    "level_text": "Generated-input search with a round-trip oracle over the real encoder and decoder; deterministic and single-threaded. Sampling, not proof.",
    "level_note": "trusts google.golang.org/protobuf (proto.Equal, Marshal) and the fake stream; batch formation by timing is replaced by generated batches",
    "assumptions": WIRE_ASSUME + ["targets all live on the address the writer serves (one writer per address, as the router guarantees)", "senders are never the empty PID"],
    "legs": [rapid("rt", "wire", "TestRoundTrip", 20000, 300000, shards=(2, 12))],
}

PROPS["C16"] = {
    "id": "C16", "level": "exploration",
    "rule": "generated envelopes (1..3 per stream; tables of 0..4 entries; indices valid, one past the end, negative, MaxInt32/MinInt32, arbitrary; type names "
            "registered, unknown, empty; payloads valid, truncated, random), each pushed through MarshalVT/UnmarshalVT so that only wire-reachable values are used, "
            "then streamReader.Receive; plus a complete enumeration of single-message envelopes over boundary indices; plus (thorough) native fuzzing of the byte string "
            "given to Envelope.UnmarshalVT.  Receive must return without panicking; deliveries must be an ordered subsequence of the messages whose type and target index "
            "are in range, whose type is registered and whose payload decodes, each at that target with that type, payload and sender; every envelope before the first one "
            "holding an invalid message must be delivered completely.  Non-trivial = the stream holds >=1 invalid message (index out of range, unknown type, undecodable payload).  "
            "Internal-target leg: the receiving node has a registered stream writer (stream/<address>, running inbox, never dials) and the envelope addresses well-formed messages to that id as well as to ordinary actors: the writer must not panic (its Invoke runs under a recover in the harness because on a real node it is the inbox goroutine), ordinary targets get their messages; a genuine delivery request queued behind them is the barrier.",
    "technique": "property-based testing (rapid) + complete boundary enumeration + native fuzzing of the decoder input, validity-predicate oracle over recorded deliveries",
    "level_text": "Generated-input search over hostile envelopes with a validity predicate; boundary space enumerated completely; bytes fuzzed coverage-guided in the thorough tier.",
    "level_note": "trusts the protobuf library to decide 'registered' and 'decodes'; the panic is observed on the caller's goroutine (in production it would be a drpc server goroutine without recover)",
    "assumptions": WIRE_ASSUME + ["a message whose sender index is out of range may be dropped or delivered with any sender: the statement does not say"],
    "legs": [rapid("gen", "wire", "TestHostileEnvelope", 20000, 300000, shards=(2, 12)),
             plain("enum", "wire", "TestHostileEnum"),
             rapid("bytes", "wire", "TestWireBytes", 20000, 300000, shards=(2, 12)),
             rapid("internal", "wire", "TestInternalTargets", 400, 4000, shards=(1, 4)),
             rapid("streams", "wire", "TestConcurrentStreams", 300, 3000, shards=(1, 4)),
             fuzz("fuzz", "wire", "FuzzEnvelopeBytes", 90)],
}

EVENTS_ASSUME = [
    "one driver goroutine executes the history on a fresh engine; barriers are logical (sentinel event through the FIFO event stream, then a direct probe message to every subscriber), never sleeps",
    "bounded waits (30 s) only ever yield 'inconclusive' (exit 2)",
]

PROPS["C09"] = {
    "id": "C09", "level": "exploration",
    "rule": "generated histories (1..14 ops over 1..4 monitor actors): subscribe/unsubscribe (also through an equal PID in a distinct object), sends to targets "
            "{nil, never spawned, stopped, foreign address on an engine without remote, live (control)} with 12 message values and 4 senders incl. none, monitors that stop "
            "without unsubscribing, lifecycle episodes that end in a dead letter.  Each monitor's log between barriers must hold exactly one DeadLetterEvent per undeliverable "
            "local send made while it was subscribed, with the Target, Message and Sender of the send, one EngineRemoteMissingEvent per foreign send, nothing for nil, in send order; "
            "no send may panic; after the history the logs must stop growing within 10 sentinel rounds (dead letters addressed to a departed subscriber are allowed but must die out).  "
            "Non-trivial = at least one undeliverable send was observed by a subscribed monitor and the history has >=2 undeliverable target classes, or >=1 with a departed subscriber.  "
            "Round 3 additions: sends through SendLocal, and Stop/Poison, of nil / never spawned / stopped targets (no panic, context done, one DeadLetterEvent carrying the stop request); a subscriber that leaves produces one ActorStoppedEvent at every remaining subscriber; a temp actor that sends to its own PID from inside its Stopped handler (one dead letter); a subscriber whose Stopped handler spawns and subscribes a successor under the same id (the successor receives everything from then on); a lost sentinel is decided by a later lifecycle event overtaking it (FIFO per broadcaster), not by a timeout.  "
            "Round 4 additions: nil message values; when a barrier sentinel does not arrive a witness subscriber decides whether the old subscriber lost its subscription (verdict) or is slow; schedule leg (props/sched, lock shim): 1..3 threads send to never-spawned / stopped / nil targets while another thread spawns and poisons actors, under generated uniform and priority schedules - no thread may end up blocked for good (deadlock = verdict), one DeadLetterEvent per send to the never-spawned PID with target, message and sender.",
    "technique": "model-based property testing (rapid) of generated send/subscribe histories on the real engine; sentinel barriers; finiteness by quiescence rounds; generated uniform and priority schedules (vsched with a cooperative lock shim) for sends racing with registrations, deadlock = verdict",
    "level_text": "Generated-history search against an exact expectation of the dead-letter log of every monitor; the feedback loop with departed subscribers is decided by quiescence rounds, not by time.",
    "level_note": "the history leg has a single driver goroutine; 'never blocks' is decided by the schedule leg only for lock cycles between senders and registrations (a deadlock under vsched is a verdict), any other blocking shows up as an inconclusive timeout",
    "assumptions": EVENTS_ASSUME,
    "legs": [rapid("hist", "events", "TestDeadLetters", 2000, 40000, shards=(2, 12)),
             rapid("sched", "sched", "TestDeadLetterSchedules", 3000, 60000, shards=(2, 12), flavour="sched")],
}

PROPS["C12"] = {
    "id": "C12", "level": "exploration",
    "rule": "generated histories (1..14 ops over 1..4 subscriber actors): subscribe / unsubscribe through the same PID object or an equal PID in a distinct object, single broadcasts, "
            "bursts of 1..4 concurrent broadcasters with 1..8 numbered events each, lifecycle episodes (spawn, optional crash, optional duplicate spawn, poison, optional late send).  "
            "Each subscriber's log must equal the model's expectation: every event broadcast while it was subscribed exactly once, none otherwise, driver events in order, per-broadcaster "
            "order inside a burst, one started/restarted/duplicate/stopped/dead-letter event per provoked occurrence.  Non-trivial = the history unsubscribes a subscribed actor or "
            "subscribes an already subscribed actor through a distinct PID object, and broadcasts something.  "
            "Round 3 additions: a Stop of an actor that is gone (one DeadLetterEvent with the stop request); a duplicate SpawnChild (one ActorDuplicateIdEvent); successor subscribers spawned from a Stopped handler under the same id; self-sends from Stopped.  "
            "Round 4 additions: a stop request queued behind the crashing message in one batch (the fresh incarnation handles Started, finds the request in the replayed tail and stops: restarted, started and stopped are each an occurrence); nil message values; the driver waits for the ActorStoppedEvent of an actor that died of max-restarts before it broadcasts anything else.",
    "technique": "model-based property testing (rapid) of subscribe/unsubscribe/broadcast histories on the real engine with logging subscriber actors and sentinel barriers",
    "level_text": "Generated-history search against an exact per-subscriber model; concurrent broadcasters are real goroutines (interleavings sampled, oracle only demands per-broadcaster order).",
    "level_note": "subscribe/unsubscribe are issued by the driver goroutine only (they are ordered with its broadcasts by the event stream inbox); ActorInitializedEvent is ignored",
    "assumptions": EVENTS_ASSUME,
    "legs": [rapid("hist", "events", "TestEventStream", 2000, 40000, shards=(2, 12))],
}

CLUSTER_ASSUME = [
    "one driver goroutine; barriers are requests/handled-notifications through FIFO inboxes and sentinel events, never sleeps; bounded waits (30 s) only yield 'inconclusive'",
    "members have fixed attributes per ID and distinct hosts; every snapshot contains the observing node",
]

PROPS["C18"] = {
    "id": "C18", "level": "exploration",
    "rule": "generated sequences of 1..8 membership snapshots over a universe of 6 members with fixed kind sets plus the observing node (growing, shrinking, repeated, "
            "with duplicate entries, self at a generated position) sent to the real agent of a cluster with a stub provider; after each snapshot Members() must equal the "
            "snapshot by ID, the MemberJoinEvent/MemberLeaveEvent log since the previous snapshot must be exactly the set difference (each once, none for stayers), and HasKind(k) "
            "must equal 'some member of the view advertises k' for 5 kinds.  Non-trivial = some snapshot both adds and removes members, or contains duplicate entries.  "
            "Round 3 addition: a member ID reported from another host in a later snapshot is a member that stayed (no events).  "
            "Round 4 additions: members with different ids reported behind one shared host.",
    "technique": "model-based property testing (rapid) of snapshot histories against a set model; Members() request as barrier, sentinel event for the event log",
    "level_text": "Generated-history search against an exact set model of the view, the event log and the kind index.",
    "level_note": "trusts the set model; kinds are fixed per member ID, hosts are not (moved, shared); every snapshot contains the observing node (the property's quantifier)",
    "assumptions": CLUSTER_ASSUME,
    "legs": [rapid("view", "clusterp", "TestMembershipView", 2000, 40000, shards=(2, 12))],
}

PROPS["C20"] = {
    "id": "C20", "level": "exploration",
    "rule": "generated histories of 1..12 ops (handshake from a peer, member list, unreachable report for the host of a member / of a non-member / repeated) against the real "
            "SelfManaged provider actor; unreachable reports take the public route (RemoteUnreachableEvent on the event stream -> event child -> provider).  After every op: "
            "the handshake reply is the complete list, the agent was told the new list whenever the op changes or re-reports it, a read-back handshake returns exactly the model set, "
            "and no ActorRestartedEvent for the provider was published.  Non-trivial = history holds an unreachable report for a non-member, or re-adds a member that was removed.  "
            "Round 3 additions: a removed member may rejoin from another address (a late unreachable report for its old address then changes nothing); members lists with 33..75 further members (the handshake answer must be complete); the barrier after an unreachable report goes through the provider's event child, not through the provider's reaction.",
    "technique": "model-based property testing (rapid) of provider histories against a set model; a middleware on the provider actor gives exact 'message handled' barriers",
    "level_text": "Generated-history search against an exact set model of the provider's member list, with a recording stub agent.",
    "level_note": "the Started/Stopped handlers of the provider are replaced by a shim without mDNS and ping timer (shim/export/cluster.go); all other messages are handled by SelfManaged.Receive itself",
    "assumptions": CLUSTER_ASSUME + ["the network-facing part of the provider's Started handler (zeroconf announce/browse, ping repeater) is not executed"],
    "legs": [rapid("prov", "clusterp", "TestProvider", 1500, 30000, shards=(2, 12))],
}

ENG_ASSUME = [
    "real goroutines on the real engine; the oracle only demands what holds under every interleaving, so the schedule (sampled by the Go runtime on 16 cores, not owned) can hide a violation but never fabricate one",
    "bounded waits (30 s) only ever yield 'inconclusive' (exit 2)",
]

PROPS["C01"] = {
    "id": "C01", "level": "exploration",
    "rule": "generated cases: 1..8 concurrent senders (plain goroutines using Send / SendWithSender with their own sender PID, sender 0 without sender, or actors using Context.Send), "
            "0..40 (1 case in 40: 0..1500) numbered messages each in two phases, initial inbox size from {1,2,3,4,5,8,16,64,1024}; the receiver blocks at two generated message counts until "
            "the current phase is completely sent, so the inbox grows, wraps and splits its backlog behind it.  After a final marker (sent after every sender returned) the log must hold, "
            "per sender, exactly its messages 0..n-1 in order with exactly its sender PID (nil stays nil), and nothing else.  Non-trivial = >=2 concurrent senders and the backlog behind "
            "the blocked receiver exceeded the initial inbox size (the ring grew).  "
            "Schedule-owning legs (vsched, inbox level): 1..3 sender threads pushing 1..3 numbered messages each into a real Inbox of initial size 1..4 while Start races with them, under generated "
            "schedules and under every schedule with <= 2 (thorough 3) preemptions of 6 configurations: what Invoke receives contains nothing that was not pushed, nothing twice, and every sender's "
            "messages in its own order (the ring grows and wraps under interleaved pushes and batch pops).  "
            "Round 3 additions: 1 case in 120 has a backlog of 4097..9000 messages (more than one batch); a duplicate Spawn under the target's id between the phases; a marker that is never handled is decided by relative progress (a bystander answers 300 requests issued after the marker while the idle target does not reach it), not by a timeout.  "
            "Round 4 additions: between the phases a neighbour actor of the target's kind whose id relates to the target's (prefix, extension, path below it, unrelated) is spawned and stopped again: the target keeps receiving.",
    "technique": "property-based testing (rapid) of generated sender populations and inbox geometries on the real engine; per-sender sequence oracle; schedule-owning legs (generated + preemption-bounded schedules) at the inbox",
    "level_text": "Generated-input search; interleavings of the senders are sampled by the runtime in the engine leg and owned (generated / enumerated with a preemption bound) in the inbox legs; inbox geometry (size, backlog, wrap) is generated.",
    "level_note": "the ring buffer's own index arithmetic is covered exhaustively for short sequences by C14",
    "assumptions": ENG_ASSUME + ["schedule-owning legs: see C02 (rewritten package actor, one managed thread at a time)"],
    "uses_vsched": True,
    "legs": [rapid("deliver", "eng", "TestDelivery", 1500, 30000, shards=(2, 12)),
             rapid("rand", "sched", "TestDeliveryRandom", 20000, 300000, shards=(2, 12), flavour="sched"),
             plain("dfs", "sched", "TestDeliveryDFS", flavour="sched"),
             rapid("engine", "sched", "TestDeliverySchedules", 3000, 60000, shards=(2, 12), flavour="sched"),
             rapid("hist", "c01", "TestDeliveryHistories", 2000, 30000, shards=(2, 12))],
}

PROPS["C10"] = {
    "id": "C10", "level": "exploration",
    "rule": "generated histories of 1..14 ops over 3 top-level ids and 3 child ids: spawn, burst (1..8 goroutines released together spawn one id, 0..4 more spawn a second id), "
            "awaited stop / poison, and 'duplicates over a backlog' (the incumbent is blocked in Receive with 1..20 queued messages while 1..6 goroutines spawn its id).  After every op: "
            "the Producer of every id has run exactly as often as the model says (never for a duplicate; once per burst on a free id), Registry.GetPID and Context.GetPID are non-nil exactly "
            "for live ids, the number of ActorDuplicateIdEvents per id equals the number of losing spawns, and the incumbent handles every queued message, in order, in the same incarnation.  "
            "Non-trivial = a burst of >=2 concurrent spawns on one free top-level id, or a spawn of an id whose previous actor was stopped.  "
            "Round 3 additions: actors that die of max-restarts inside their own Spawn (panic in Initialized/Started, MaxRestarts 0): id free again, GetPID nil, respawn works; duplicates spawned while the incumbent is draining the messages queued behind a graceful Poison (it is still registered and keeps every queued message).  "
            "Round 4 additions: the ids of the population relate to each other as prefixes and paths (1, 10, 1x, 1/0); a spawn over an actor that is being shut down and waits for a child with a blocking Stopped handler (still registered: duplicate event, producer not run).",
    "technique": "model-based property testing (rapid) of spawn/stop histories with concurrent spawn bursts on the real engine; counters in the Producer, sentinel-bounded event counts",
    "level_text": "Generated-history search against an exact model of live ids, producer calls and duplicate events; the spawn race is sampled with up to 12 goroutines per burst.",
    "level_note": "child spawns are serialised by their parent actor, so only top-level bursts race; Stop is awaited before the next op except in the slowkid / churn / poisoned-dupover episodes, which exist to overlap it",
    "assumptions": ENG_ASSUME,
    "legs": [rapid("spawns", "eng", "TestSpawns", 1500, 30000, shards=(2, 12)),
             rapid("mass", "eng", "TestMassRegistry", 6, 60, shards=(1, 4))],
}

PROPS["C11"] = {
    "id": "C11", "level": "exploration",
    "rule": "generated cases: 1..32 concurrent requesters over 1..4 responders; each request carries a unique token and a responder behaviour (reply once, reply twice, no reply, reply after "
            "Result() returned) with a 5..40 ms timeout for the silent ones and 30 s for the answered ones.  A returned value must carry the request's own token; an error is accepted only "
            "if at least the timeout has elapsed since just before Result() was called; a silent responder must produce an error; after Result() the response PID is unregistered in both "
            "outcomes; a reply sent afterwards produces exactly one DeadLetterEvent for that response PID carrying that reply.  Non-trivial = >=2 concurrent requests with >=2 answered and "
            ">=1 timed-out request.  Cases in which two requests drew the same random response id are not judged (counted).  "
            "Round 3 additions: 'held' requests (the reply arrives at once, Result() is called after more than the timeout: the reply must be returned); zero timeouts; the frequency of response-id collisions is judged (>= 3 colliding cases in one process against < 2.4e-7 per case for a 31-bit random id) - a statistical oracle.  "
            "Round 4 additions: timeouts of one hour, of the largest Duration and of a few microseconds less; a first reply that the monitor sees as a DeadLetterEvent within 10 s of the request while the requester has not returned from Result() is a verdict (lost reply), not a timeout.",
    "technique": "property-based testing (rapid) of concurrent request populations with token correlation; monotonic-clock lower bound for the timeout; dead-letter probe for late replies",
    "level_text": "Generated-input search with a timing-robust oracle: only a lower bound on elapsed time and token identity are asserted.",
    "level_note": "cross-talk through a collision of the 31-bit random response id cannot be reached without owning math/rand and is not claimed",
    "assumptions": ENG_ASSUME + ["a responder replies at most twice before Result() is called (a third reply blocks in Response.Send, outside this property)"],
    "legs": [rapid("req", "eng", "TestRequests", 600, 8000, shards=(2, 12))],
}

PROPS["C08"] = {
    "id": "C08", "level": "exploration",
    "rule": "generated trees of 1..10 actors (depth <= 3, fan-out <= 3, children spawned by their parent's Started handler), nodes that are blocked in Receive with 0..5 queued messages "
            "when the shutdown starts, leaves that die inside their own Started handler (MaxRestarts 0), 0..2 subtrees stopped/poisoned by a third party beforehand (awaited), then one node is stopped, poisoned or crashed to death (MaxRestarts 0) "
            "while 0..3 third parties stop/poison nodes inside that subtree (the target included) just before, just after, or from goroutines released together with the shutdown call.  "
            "Every actor stamps Stopped with a global sequence number and looks its descendants up in the registry from inside its Stopped handler: every descendant must have a smaller "
            "stamp and be unregistered, Stopped is handled exactly once per node, the stop context completes after all of it, nodes outside the subtree are untouched, Children() of every "
            "live node equals the model's live children at every quiescent point, Parent() names the spawner.  Non-trivial = the stopped subtree has depth >= 2 and a blocked descendant, "
            "a subtree that stopped on its own first, a child that died in its own Started, a death by max-restarts, or a third-party stop overlapping the shutdown.  "
            "Every overlapping request's context must be done once the subtree is down, and at that moment its target has handled Stopped and is unregistered.  "
            "Round 3 additions: nodes spawned WithContext(cancelled ctx); a duplicate SpawnChild under a live child's id (producer must not run, Children() unchanged); Stopped handlers that yield 0..200 times; for a target that is crashed to death the end of the shutdown is its ActorStoppedEvent.  "
            "Round 4 additions: a descendant with MaxRestarts 0 is crashed to death before / while / after an ancestor is shut down (its clean-up overlaps the ancestor's): nobody may be left behind.",
    "technique": "property-based testing (rapid) of generated supervision trees and overlapping stop requests on the real engine; global stop stamps + in-handler registry probes",
    "level_text": "Generated-configuration search with an ordering invariant over the Stopped stamps of the whole tree.",
    "level_note": "the interleaving of overlapping stop requests with the clean-up of the tree is sampled by the Go runtime (real goroutines), not owned; findings F7, F17, F18 (fixed) were found and are guarded by this leg",
    "assumptions": ENG_ASSUME + ["no handler panics inside Stopped"],
    "legs": [plain("known", "tree", "TestKnownF7"), rapid("tree", "tree", "TestTree", 2000, 40000, shards=(2, 12)),
             rapid("respawn", "tree", "TestRespawnChild", 600, 6000, shards=(1, 4))],
}

SCHED_ASSUME = [
    "package actor is compiled from a copy rewritten at check time from /repo/actor/*.go (imports of sync/atomic and the ring buffer redirected to yielding shims, `go` statements of inbox.go turned into managed threads, "
    "a scheduling point at the entry of every Registry method, of process.Send/Invoke/Start/tryRestart/cleanup and of Engine.send/SendLocal/sendPoisonPill); "
    "only one managed thread runs at a time, so every execution is a sequentially consistent interleaving at the granularity of the inbox's atomic operations and ring-buffer calls",
    "Go-memory-model reorderings below that granularity are not explored",
]

PROPS["C02"] = {
    "id": "C02", "level": "exploration", "uses_vsched": True,
    "rule": "the harness owns the scheduler (vsched).  Inbox level: 1..3 sender threads pushing 1..3 messages each into a real Inbox of initial size 1..4 while another thread calls Start (or after Start has returned); "
            "the schedule is a generated list of choices (<= 200) or, in the DFS leg, every schedule with <= 2 (thorough: 3) preemptions of 6 fixed configurations.  The recording Processer "
            "counts active Invoke calls around two yields: more than one at a time, or a panic on any thread, is the violation.  Engine level: Spawn, 1..2 sender threads issuing sends, panicking "
            "sends, Poison and Stop under generated schedules; every Receive (lifecycle messages and restarts included) increments/decrements a counter around a yield.  "
            "Non-trivial = the trace has >= 2 context switches and >= 2 threads executed a CAS on procStatus (engine level: additionally a pill or a restart).  Distinct = configuration + consumed schedule.  "
            "History leg (real goroutines, unmodified package actor): generated single-actor histories (sends, panicking sends, gates that block the receiver inside Receive, releases, bursts, Stop, Poison, "
            "respawn, planned panics in Initialized/Started, sends racing the start-up) with an entry/exit counter around every invocation of the actor's Receive over all incarnations: while a gate holds "
            "the receiver inside Receive any further delivery, by whichever goroutine, is an overlap; non-trivial there = a crash and a gate in one history, or sends racing the start-up.  "
            "Thorough tier: the same histories in a -race build in which every Receive writes a plain, unsynchronised field of the receiver: a report of the race detector that involves package actor, "
            "the ring buffer or that field means two invocations are not ordered by happens-before (the journaled case is the replay file).",
    "technique": "schedule-owning property testing: generated interleavings (rapid) and preemption-bounded exhaustive enumeration of a real Inbox / Engine under a cooperative scheduler injected at build time; plus generated gate-controlled histories on the real engine with an overlap counter",
    "level_text": "Generated-schedule search plus complete enumeration of all schedules with a bounded number of preemptions for small configurations; the oracle is an overlap counter.",
    "level_note": "sequentially consistent interleavings of the rewritten code only; trusts the rewriter (imports and go statements) and vsched; the history leg owns the history (gates), not the schedule",
    "assumptions": SCHED_ASSUME + ["history leg: one driver goroutine, gates instead of timing (internal/life)"],
    "legs": [rapid("rand", "sched", "TestSerialRandom", 20000, 300000, shards=(2, 12), flavour="sched"),
             plain("dfs", "sched", "TestSerialDFS", flavour="sched"),
             rapid("engine", "sched", "TestSerialEngine", 4000, 60000, shards=(2, 12), flavour="sched"),
             rapid("lsched", "sched", "TestSerialSchedules", 3000, 60000, shards=(2, 12), flavour="sched"),
             rapid("hist", "c02", "TestSerialHistories", 3000, 40000, shards=(2, 12)),
             rapid("start", "c02", "TestStartOverlap", 400, 4000, shards=(1, 4)),
             rapid("race", "c02", "TestSerialHistories", 1500, 3000, shards=(2, 8), race=True, tiers=("thorough",))],
}

PROPS["C03"] = {
    "id": "C03", "level": "exploration", "uses_vsched": True,
    "rule": "the harness owns the scheduler (vsched): 1..3 sender threads pushing 1..3 messages each into a real Inbox of initial size 1..4 while another thread calls Start (or after Start has returned), under a generated "
            "schedule (<= 200 choices) or every schedule with <= 2 (thorough: 3) preemptions of 6 fixed configurations.  'No runnable thread' is a fact under this scheduler, not a timeout: at that "
            "point every accepted message must have been invoked.  Non-trivial = a sender completed a push after a worker's empty PopN and before that worker's running->idle CAS executed "
            "(the lost-wake-up window), or completed a push before Start published 'idle'.  Distinct = configuration + consumed schedule.  "
            "Engine leg: the real Engine under generated schedules (uniform or priority/PCT) with 1..3 sender threads, panicking sends and restarts inside the budget: with no stop request, at quiescence "
            "the actor is registered and every message sent was handled exactly once.  "
            "Real-goroutine leg (shared with C01): 1..8 concurrent senders against one actor with a small inbox that grows and wraps; once every sender has returned and the gates are open, the actor must get through everything without another send - decided by relative progress (a bystander answers 300 requests while the idle target does not reach the final marker), because the schedule-owning legs treat a ring-buffer call as one step and cannot interleave inside it.",
    "technique": "schedule-owning property testing: liveness decided as safety at quiescence under a cooperative scheduler injected at build time; random schedules (rapid) + preemption-bounded enumeration",
    "level_text": "Generated-schedule search plus complete enumeration of all schedules with a bounded number of preemptions for small configurations; quiescence is exact because the harness owns every thread.",
    "level_note": "sequentially consistent interleavings of the rewritten code only; trusts the rewriter and vsched",
    "assumptions": SCHED_ASSUME,
    "legs": [rapid("rand", "sched", "TestWakeupRandom", 20000, 300000, shards=(2, 12), flavour="sched"),
             plain("dfs", "sched", "TestWakeupDFS", flavour="sched"),
             rapid("engine", "sched", "TestQuiescenceSchedules", 3000, 60000, shards=(2, 12), flavour="sched"),
             rapid("real", "eng", "TestDelivery", 600, 12000, shards=(2, 12))],
}

PROPS["C17"] = {
    "id": "C17", "level": "exploration",
    "rule": "generated cases on real loopback TCP: node A with 1..6 sender goroutines, 1..4 target actors on node B and 0..3 on a third node C; each sender follows a generated script of 1..40 "
            "steps (Send / SendWithSender with its own sender PID, sender 0 without; 1 step in 10 a Request that the target answers with the request's token), then a final marker per target.  "
            "One case in four runs every node WithTLS (mutual authentication against a throw-away CA).  "
            "Per (sender, target) the received sequence must equal the sent one (exactly once, in order, with the sender PID), replies must carry the request's token; afterwards Start on a running "
            "remote must fail harmlessly, Stop().Wait() twice must return, and a TCP dial to the address must be refused.  Unreachable episodes (9 in quick, 18 in thorough, in parallel; one in six against a peer that accepts TCP connections but presents a certificate of an unrelated CA, one in three against an address that refuses the first attempts and accepts a later one - a forwarder owned by the harness counts the connections it took: reported unreachable although an attempt got through = verdict): k messages "
            "to an address nobody listens on -> RemoteUnreachableEvent for it and exactly k DeadLetterEvents naming its stream writer; then the peer is started on that address and a later send must "
            "arrive there (an extra dead letter instead = no fresh attempt); every third episode runs both nodes WithTLS (the failing dial is tls.Dial); an ActorRestartedEvent for the router or a stream "
            "writer before the RemoteUnreachableEvent = the attempt ended in a crash, and a process that does not survive the episodes is a violation whose replay is the journaled group of episodes.  Peer-restart episodes (6 in quick, 60 in thorough): node A talks to 8..32 peers over established connections "
            "(per-peer sequence closed by a marker), every peer's remote is stopped, A must publish RemoteUnreachableEvent per address and its stream writers unregister, new peers come up on the same "
            "addresses and what A sends then must arrive, once and in order; a DeadLetterEvent naming the old stream writer = no fresh attempt.  "
            "Non-trivial = >= 2 senders and >= 2 targets, or an unreachable / peer-restart episode.",
    "technique": "property-based testing (rapid) of generated sender/target populations over real remotes; per-flow sequence oracle closed by final markers; scripted unreachable and peer-restart (connection loss) episodes with a dead-letter oracle",
    "level_text": "Generated-input search over real TCP; batch formation and interleavings are sampled by timing (C15 is the deterministic counterpart for the encoding).",
    "level_note": "loss shows only through a final marker that overtook a message; nothing arriving at all is a timeout = inconclusive; connection loss is generated only between conversations (peer stop / restart), not while messages are in flight",
    "assumptions": ENG_ASSUME + ["loopback ports come from a per-process block below the kernel's ephemeral range (10000 + (pid mod 110)*200 + k); the address of an unreachable peer is held by a bound, non-listening socket"],
    "legs": [rapid("flows", "net", "TestRemoteFlows", 60, 1200, shards=(2, 12)),
             plain("unreach", "net", "TestUnreachable", timeout={"quick": 300, "thorough": 600}, death_is_violation=True),
             plain("restart", "net", "TestPeerRestart", timeout={"quick": 300, "thorough": 1200}),
             rapid("lifecycle", "net", "TestRemoteLifecycle", 60, 600, shards=(2, 8))],
}

PROPS["C19"] = {
    "id": "C19", "level": "exploration",
    "rule": "generated histories of 1..14 ops on 1..4 real Clusters (fixed kind sets {player,room},{player},{room,npc},{}) joined by an in-memory Remoter that round-trips every message through "
            "the proto serializer: activate(kind in {player,room,npc,ghost}, id 0..2, via any joined node, select function = k-th capable member by id), deactivate, cluster-spawn, join, leave; "
            "membership is driven by snapshots.  Activate must return nil and spawn nothing for an id that is active or a kind nobody advertises; otherwise exactly one actor is spawned, on the "
            "member the select function returned, and that PID is returned.  After every op, on every joined node, GetActiveByID of all 15 ids and GetActiveByKind of all 5 kinds must equal the "
            "model (a joiner learns everything, deactivate removes everywhere and stops the actor, a leaver's activations disappear), and the number of producer calls must equal the model's.  "
            "Non-trivial = the history has a remote activation and a leave or a deactivate.  "
            "Round 3 additions: 'swap' (a departure and a join in one snapshot), 'lagjoin' (the joiner's own view still lists only itself while the others have sent it their topology: re-activating an id it resolves returns nil), 'slowjoin' (some members hear of a join only after one of them has activated an actor: the joiner must still learn it).  "
            "Round 4 additions: one of the three ids of the population contains the kind/id separator (lobby/7).",
    "technique": "model-based property testing (rapid) of activation histories on an in-memory multi-node cluster against a map model; FIFO requests through the agents as barriers",
    "level_text": "Generated-history search against an exact model of the activation table on every node (quiescent histories).",
    "level_note": "notifications are pushed synchronously into the destination inbox, so arrival orders across links are not permuted; a node that left never rejoins",
    "assumptions": CLUSTER_ASSUME + ["the in-memory Remoter delivers every message immediately and in order; messages to a node that left are dropped"],
    "legs": [rapid("act", "clusterp", "TestActivations", 1000, 20000, shards=(2, 12))],
}

# reasons for properties that are not claimed (kept current by hand)
NA_REASONS = {}
