// Package vsched is a baton-passing cooperative scheduler: exactly one managed
// goroutine runs at a time; it runs until its next Yield, where the controller
// picks who runs next.
package vsched

import (
	"fmt"
	"runtime/debug"
	"sync"
)

type thread struct {
	id     int
	name   string
	resume chan struct{}
	done   bool
	// ready, when set, says whether a thread that parked in Block can go on; the controller does not
	// pick it before
	ready func() bool
	on    string
}

type event struct {
	t        *thread
	finished bool
	panicked any
	stack    string
}

type Sched struct {
	mu         sync.Mutex
	threads    []*thread
	cur        *thread
	parked     chan event
	Trace      []string
	Steps      int
	Panic      any
	PanicStack string
	// Deadlock: threads that are parked in Block (with what they wait for) at a moment when no
	// thread can run although not all have finished.  Run returns false then.
	Deadlock []string
}

var cur *Sched

// Choose picks an index in [0,n).
type Chooser func(n int, names []string) int

func New() *Sched { return &Sched{parked: make(chan event)} }

func (s *Sched) spawn(name string, fn func()) {
	t := &thread{id: len(s.threads), name: name, resume: make(chan struct{})}
	s.threads = append(s.threads, t)
	go func() {
		<-t.resume
		defer func() {
			if v := recover(); v != nil {
				s.parked <- event{t: t, finished: true, panicked: v, stack: string(debug.Stack())}
				return
			}
			s.parked <- event{t: t, finished: true}
		}()
		fn()
	}()
}

// Go registers a new managed thread (callable before Run or from a managed thread).
func (s *Sched) Go(name string, fn func()) { s.spawn(name, fn) }

// Run drives all threads to completion. Returns false if maxSteps exceeded.
func (s *Sched) Run(choose Chooser, maxSteps int) bool {
	cur = s
	defer func() { cur = nil }()
	for {
		var run []*thread
		var names []string
		alive := 0
		for _, t := range s.threads {
			if !t.done {
				alive++
				if t.ready != nil && !t.ready() {
					continue
				}
				run = append(run, t)
				names = append(names, t.name)
			}
		}
		if alive == 0 {
			return true
		}
		if len(run) == 0 {
			for _, t := range s.threads {
				if !t.done {
					s.Deadlock = append(s.Deadlock, t.name+" waits in "+t.on)
				}
			}
			return false
		}
		if s.Steps >= maxSteps {
			return false
		}
		s.Steps++
		t := run[choose(len(run), names)]
		s.cur = t
		t.resume <- struct{}{}
		ev := <-s.parked
		if ev.finished {
			ev.t.done = true
			if ev.panicked != nil && s.Panic == nil {
				s.Panic = ev.panicked
				s.PanicStack = ev.stack
			}
		}
	}
}

// Yield is a scheduling point. No-op when no scheduler is active.
func Yield(label string) {
	s := cur
	if s == nil {
		return
	}
	t := s.cur
	s.Trace = append(s.Trace, fmt.Sprintf("%s@%s", t.name, label))
	s.parked <- event{t: t}
	<-t.resume
}

// Active reports whether a scheduler is driving the calling code.
func Active() bool { return cur != nil }

// Block parks the calling managed thread until ready() holds.  When it holds already the call
// returns at once and is not a scheduling point.  No-op without a scheduler.
func Block(label string, ready func() bool) {
	s := cur
	if s == nil || ready() {
		return
	}
	t := s.cur
	t.ready, t.on = ready, label
	s.Trace = append(s.Trace, fmt.Sprintf("%s@%s", t.name, label))
	s.parked <- event{t: t}
	<-t.resume
	t.ready, t.on = nil, ""
}

// Go starts fn as a managed thread under the active scheduler, or a plain goroutine.
func Go(fn func()) {
	s := cur
	if s == nil {
		go fn()
		return
	}
	s.spawn(fmt.Sprintf("w%d", len(s.threads)), fn)
}
