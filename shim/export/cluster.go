//go:build verif

package cluster

import (
	"context"

	"github.com/anthdm/hollywood/actor"
)

// verifProvider is the real SelfManaged provider minus the parts of its Started/Stopped
// handlers that need the network (mDNS announcer and resolver, ping timer). Every other
// message is handled by SelfManaged.Receive itself.
type verifProvider struct{ *SelfManaged }

func (p verifProvider) Receive(c *actor.Context) {
	s := p.SelfManaged
	switch c.Message().(type) {
	case actor.Started:
		s.ctx, s.cancel = context.WithCancel(context.Background())
		s.pid = c.PID()
		s.members.Add(s.cluster.Member())
		s.sendMembersToAgent()
		s.eventSubPID = c.SpawnChildFunc(func(cc *actor.Context) {
			s.handleEventStream(cc)
			if h := VerifEventChildHandled; h != nil {
				h(cc.Message())
			}
		}, "event")
		s.cluster.engine.Subscribe(s.eventSubPID)
	case actor.Stopped:
		s.cluster.engine.Unsubscribe(s.eventSubPID)
		s.cancel()
	default:
		s.Receive(c)
	}
}

// VerifEventChildHandled, if set, is called after the provider's event-stream child has handled a
// message (so that a harness can wait for "the unreachable report went through the child" without
// depending on what the child made of it).
var VerifEventChildHandled func(msg any)

// VerifStartProvider starts only the provider of c, reporting to the given agent PID.
func VerifStartProvider(c *Cluster, agent *actor.PID, opts ...actor.OptFunc) *actor.PID {
	c.agentPID = agent
	prod := NewSelfManagedProvider(NewSelfManagedConfig())(c)
	opts = append(opts, actor.WithID(c.config.id))
	c.providerPID = c.engine.Spawn(func() actor.Receiver {
		return verifProvider{prod().(*SelfManaged)}
	}, "provider", opts...)
	c.isStarted = true
	return c.providerPID
}
