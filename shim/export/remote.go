//go:build verif

package remote

import (
	"net"

	"github.com/anthdm/hollywood/actor"
)

func VerifNewWriter(e *actor.Engine, addr string, stream DRPCRemote_ReceiveStream, conn net.Conn) actor.Processer {
	w := newStreamWriter(e, nil, addr, nil, 0).(*streamWriter)
	w.stream = stream
	w.rawconn = conn
	return w
}

// VerifNewWriterBuf is VerifNewWriter for a node configured WithBufferSize(buf).
func VerifNewWriterBuf(e *actor.Engine, addr string, stream DRPCRemote_ReceiveStream, conn net.Conn, buf int) actor.Processer {
	w := newStreamWriter(e, nil, addr, nil, buf).(*streamWriter)
	w.stream = stream
	w.rawconn = conn
	return w
}

func VerifDeliver(target, sender *actor.PID, msg any) any {
	return &streamDeliver{target: target, sender: sender, msg: msg}
}

func VerifReaderReceive(e *actor.Engine, stream DRPCRemote_ReceiveStream) error {
	r := newStreamReader(&Remote{engine: e})
	return r.Receive(stream)
}

// VerifWriter is a real stream writer that is registered and has a running inbox but never dials:
// Start only starts the inbox.  Invoke runs the real streamWriter.Invoke under a recover, because on a
// real node it runs on the writer's inbox goroutine, where a panic ends the process.
type VerifWriter struct {
	*streamWriter
	Panicked func(v any)
}

func (w *VerifWriter) Start() { w.inbox.Start(w) }

func (w *VerifWriter) Invoke(msgs []actor.Envelope) {
	defer func() {
		if v := recover(); v != nil && w.Panicked != nil {
			w.Panicked(v)
		}
	}()
	for i, m := range msgs {
		if c, ok := m.Msg.(VerifConnectMsg); ok {
			if i > 0 {
				w.streamWriter.Invoke(msgs[:i])
			}
			w.stream = c.Stream
			if i+1 < len(msgs) {
				w.Invoke(msgs[i+1:])
			}
			return
		}
	}
	w.streamWriter.Invoke(msgs)
}

// VerifConnectMsg, sent to a VerifWriter, is the moment its init() completes: everything queued before
// it goes through Invoke without a stream, everything behind it with c.Stream.
type VerifConnectMsg struct{ Stream DRPCRemote_ReceiveStream }

func VerifNewRunningWriter(e *actor.Engine, addr string, stream DRPCRemote_ReceiveStream, conn net.Conn, panicked func(any)) *VerifWriter {
	w := newStreamWriter(e, nil, addr, nil, 0).(*streamWriter)
	w.stream = stream
	w.rawconn = conn
	return &VerifWriter{streamWriter: w, Panicked: panicked}
}

// VerifReader is the one stream reader of a node: a Remote has a single streamReader, and every
// inbound stream is served by a Receive call on it, each on a goroutine of its own.
type VerifReader struct{ r *streamReader }

func VerifNewReader(e *actor.Engine) *VerifReader {
	return &VerifReader{r: newStreamReader(&Remote{engine: e})}
}

func (v *VerifReader) Receive(stream DRPCRemote_ReceiveStream) error { return v.r.Receive(stream) }

