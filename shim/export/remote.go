//go:build verif

package remote

import (
	"net"

	"github.com/anthdm/hollywood/actor"
)

func VerifNewWriter(e *actor.Engine, addr string, stream DRPCRemote_ReceiveStream, conn net.Conn) actor.Processer {
	w := newStreamWriter(e, nil, addr, nil, 0).(*streamWriter)
	w.stream = stream
	w.rawconn = conn
	return w
}

func VerifDeliver(target, sender *actor.PID, msg any) any {
	return &streamDeliver{target: target, sender: sender, msg: msg}
}

func VerifReaderReceive(e *actor.Engine, stream DRPCRemote_ReceiveStream) error {
	r := newStreamReader(&Remote{engine: e})
	return r.Receive(stream)
}
