// Package sync stands in for the standard package in the rewritten package actor (flavour "sched").
// Mutex and RWMutex keep the real lock, and know who holds them: a managed thread that would have to
// wait parks in vsched.Block instead of blocking the baton, so that a lock held across a scheduling
// point is a state the controller can see - and a cycle of waiters is reported as a deadlock instead
// of hanging the run.  An uncontended Lock is not a scheduling point.  RWMutex prefers writers the
// way the real one does: a pending Lock keeps new readers out.
package sync

import (
	rs "sync"

	"github.com/anthdm/hollywood/verifshim/vsched"
)

type (
	WaitGroup = rs.WaitGroup
	Once      = rs.Once
	Cond      = rs.Cond
	Map       = rs.Map
	Pool      = rs.Pool
	Locker    = rs.Locker
)

func NewCond(l Locker) *Cond { return rs.NewCond(l) }

type Mutex struct {
	real rs.Mutex
	g    rs.Mutex
	held bool
}

func (m *Mutex) free() bool { m.g.Lock(); defer m.g.Unlock(); return !m.held }

func (m *Mutex) Lock() {
	vsched.Block("Mutex.Lock", m.free)
	m.real.Lock()
	m.g.Lock()
	m.held = true
	m.g.Unlock()
}

func (m *Mutex) TryLock() bool {
	if !m.real.TryLock() {
		return false
	}
	m.g.Lock()
	m.held = true
	m.g.Unlock()
	return true
}

func (m *Mutex) Unlock() {
	m.g.Lock()
	m.held = false
	m.g.Unlock()
	m.real.Unlock()
}

type RWMutex struct {
	real    rs.RWMutex
	g       rs.Mutex
	writer  bool
	readers int
	pending int // writers waiting in Lock
}

func (m *RWMutex) Lock() {
	m.g.Lock()
	m.pending++
	m.g.Unlock()
	vsched.Block("RWMutex.Lock", func() bool { m.g.Lock(); defer m.g.Unlock(); return !m.writer && m.readers == 0 })
	m.real.Lock()
	m.g.Lock()
	m.pending--
	m.writer = true
	m.g.Unlock()
}

func (m *RWMutex) Unlock() {
	m.g.Lock()
	m.writer = false
	m.g.Unlock()
	m.real.Unlock()
}

func (m *RWMutex) RLock() {
	vsched.Block("RWMutex.RLock", func() bool { m.g.Lock(); defer m.g.Unlock(); return !m.writer && m.pending == 0 })
	m.real.RLock()
	m.g.Lock()
	m.readers++
	m.g.Unlock()
}

func (m *RWMutex) RUnlock() {
	m.g.Lock()
	m.readers--
	m.g.Unlock()
	m.real.RUnlock()
}

func (m *RWMutex) RLocker() Locker { return (*rlocker)(m) }

type rlocker RWMutex

func (r *rlocker) Lock()   { (*RWMutex)(r).RLock() }
func (r *rlocker) Unlock() { (*RWMutex)(r).RUnlock() }
