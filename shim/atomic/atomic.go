package atomic

import (
	ra "sync/atomic"

	"github.com/anthdm/hollywood/verifshim/vsched"
)

func CompareAndSwapInt32(addr *int32, old, new int32) bool {
	vsched.Yield("cas")
	r := ra.CompareAndSwapInt32(addr, old, new)
	vsched.Yield("cas'")
	return r
}
func LoadInt32(addr *int32) int32       { vsched.Yield("load"); return ra.LoadInt32(addr) }
func StoreInt32(addr *int32, v int32)   { vsched.Yield("store"); ra.StoreInt32(addr, v); vsched.Yield("store'") }
func SwapInt32(addr *int32, v int32) int32 { vsched.Yield("swap"); r := ra.SwapInt32(addr, v); vsched.Yield("swap'"); return r }
func AddInt32(addr *int32, d int32) int32  { vsched.Yield("add"); return ra.AddInt32(addr, d) }
func VerifGo(fn func()) { vsched.Go(fn) }
