package atomic

import (
	ra "sync/atomic"

	"github.com/anthdm/hollywood/verifshim/vsched"
)

func CompareAndSwapInt32(addr *int32, old, new int32) bool {
	vsched.Yield("cas")
	r := ra.CompareAndSwapInt32(addr, old, new)
	vsched.Yield("cas'")
	return r
}
func LoadInt32(addr *int32) int32 { vsched.Yield("load"); return ra.LoadInt32(addr) }
func StoreInt32(addr *int32, v int32) {
	vsched.Yield("store")
	ra.StoreInt32(addr, v)
	vsched.Yield("store'")
}
func SwapInt32(addr *int32, v int32) int32 {
	vsched.Yield("swap")
	r := ra.SwapInt32(addr, v)
	vsched.Yield("swap'")
	return r
}
func AddInt32(addr *int32, d int32) int32 { vsched.Yield("add"); return ra.AddInt32(addr, d) }
func VerifGo(fn func())                   { vsched.Go(fn) }

// ---- the typed API of sync/atomic, with the same scheduling points as the functions above ----

func LoadInt64(addr *int64) int64 { vsched.Yield("load"); return ra.LoadInt64(addr) }
func StoreInt64(addr *int64, v int64) {
	vsched.Yield("store")
	ra.StoreInt64(addr, v)
	vsched.Yield("store'")
}
func AddInt64(addr *int64, d int64) int64 { vsched.Yield("add"); return ra.AddInt64(addr, d) }
func SwapInt64(addr *int64, v int64) int64 {
	vsched.Yield("swap")
	r := ra.SwapInt64(addr, v)
	vsched.Yield("swap'")
	return r
}
func CompareAndSwapInt64(addr *int64, old, new int64) bool {
	vsched.Yield("cas")
	r := ra.CompareAndSwapInt64(addr, old, new)
	vsched.Yield("cas'")
	return r
}
func LoadUint32(addr *uint32) uint32 { vsched.Yield("load"); return ra.LoadUint32(addr) }
func StoreUint32(addr *uint32, v uint32) {
	vsched.Yield("store")
	ra.StoreUint32(addr, v)
	vsched.Yield("store'")
}
func AddUint32(addr *uint32, d uint32) uint32 { vsched.Yield("add"); return ra.AddUint32(addr, d) }
func CompareAndSwapUint32(addr *uint32, old, new uint32) bool {
	vsched.Yield("cas")
	r := ra.CompareAndSwapUint32(addr, old, new)
	vsched.Yield("cas'")
	return r
}
func LoadUint64(addr *uint64) uint64 { vsched.Yield("load"); return ra.LoadUint64(addr) }
func StoreUint64(addr *uint64, v uint64) {
	vsched.Yield("store")
	ra.StoreUint64(addr, v)
	vsched.Yield("store'")
}
func AddUint64(addr *uint64, d uint64) uint64 { vsched.Yield("add"); return ra.AddUint64(addr, d) }

type Bool struct{ v ra.Bool }

func (x *Bool) Load() bool   { vsched.Yield("load"); return x.v.Load() }
func (x *Bool) Store(b bool) { vsched.Yield("store"); x.v.Store(b); vsched.Yield("store'") }
func (x *Bool) Swap(b bool) bool {
	vsched.Yield("swap")
	r := x.v.Swap(b)
	vsched.Yield("swap'")
	return r
}
func (x *Bool) CompareAndSwap(old, new bool) bool {
	vsched.Yield("cas")
	r := x.v.CompareAndSwap(old, new)
	vsched.Yield("cas'")
	return r
}

type Int32 struct{ v ra.Int32 }

func (x *Int32) Load() int32       { vsched.Yield("load"); return x.v.Load() }
func (x *Int32) Store(n int32)     { vsched.Yield("store"); x.v.Store(n); vsched.Yield("store'") }
func (x *Int32) Add(d int32) int32 { vsched.Yield("add"); return x.v.Add(d) }
func (x *Int32) Swap(n int32) int32 {
	vsched.Yield("swap")
	r := x.v.Swap(n)
	vsched.Yield("swap'")
	return r
}
func (x *Int32) CompareAndSwap(old, new int32) bool {
	vsched.Yield("cas")
	r := x.v.CompareAndSwap(old, new)
	vsched.Yield("cas'")
	return r
}

type Int64 struct{ v ra.Int64 }

func (x *Int64) Load() int64       { vsched.Yield("load"); return x.v.Load() }
func (x *Int64) Store(n int64)     { vsched.Yield("store"); x.v.Store(n); vsched.Yield("store'") }
func (x *Int64) Add(d int64) int64 { vsched.Yield("add"); return x.v.Add(d) }
func (x *Int64) Swap(n int64) int64 {
	vsched.Yield("swap")
	r := x.v.Swap(n)
	vsched.Yield("swap'")
	return r
}
func (x *Int64) CompareAndSwap(old, new int64) bool {
	vsched.Yield("cas")
	r := x.v.CompareAndSwap(old, new)
	vsched.Yield("cas'")
	return r
}

type Uint32 struct{ v ra.Uint32 }

func (x *Uint32) Load() uint32        { vsched.Yield("load"); return x.v.Load() }
func (x *Uint32) Store(n uint32)      { vsched.Yield("store"); x.v.Store(n); vsched.Yield("store'") }
func (x *Uint32) Add(d uint32) uint32 { vsched.Yield("add"); return x.v.Add(d) }
func (x *Uint32) CompareAndSwap(old, new uint32) bool {
	vsched.Yield("cas")
	r := x.v.CompareAndSwap(old, new)
	vsched.Yield("cas'")
	return r
}

type Uint64 struct{ v ra.Uint64 }

func (x *Uint64) Load() uint64        { vsched.Yield("load"); return x.v.Load() }
func (x *Uint64) Store(n uint64)      { vsched.Yield("store"); x.v.Store(n); vsched.Yield("store'") }
func (x *Uint64) Add(d uint64) uint64 { vsched.Yield("add"); return x.v.Add(d) }
func (x *Uint64) CompareAndSwap(old, new uint64) bool {
	vsched.Yield("cas")
	r := x.v.CompareAndSwap(old, new)
	vsched.Yield("cas'")
	return r
}

type Pointer[T any] struct{ v ra.Pointer[T] }

func (x *Pointer[T]) Load() *T   { vsched.Yield("load"); return x.v.Load() }
func (x *Pointer[T]) Store(p *T) { vsched.Yield("store"); x.v.Store(p); vsched.Yield("store'") }
func (x *Pointer[T]) Swap(p *T) *T {
	vsched.Yield("swap")
	r := x.v.Swap(p)
	vsched.Yield("swap'")
	return r
}
func (x *Pointer[T]) CompareAndSwap(old, new *T) bool {
	vsched.Yield("cas")
	r := x.v.CompareAndSwap(old, new)
	vsched.Yield("cas'")
	return r
}

type Value struct{ v ra.Value }

func (x *Value) Load() any   { vsched.Yield("load"); return x.v.Load() }
func (x *Value) Store(v any) { vsched.Yield("store"); x.v.Store(v); vsched.Yield("store'") }
