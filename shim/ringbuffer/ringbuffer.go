package ringbuffer

import (
	real "github.com/anthdm/hollywood/ringbuffer"
	"github.com/anthdm/hollywood/verifshim/vsched"
)

type RingBuffer[T any] struct{ r *real.RingBuffer[T] }

func New[T any](size int64) *RingBuffer[T] { return &RingBuffer[T]{r: real.New[T](size)} }
func (rb *RingBuffer[T]) Push(item T)      { vsched.Yield("push"); rb.r.Push(item) }
func (rb *RingBuffer[T]) Len() int64       { vsched.Yield("len"); return rb.r.Len() }
func (rb *RingBuffer[T]) Pop() (T, bool)   { vsched.Yield("pop"); return rb.r.Pop() }
func (rb *RingBuffer[T]) PopN(n int64) ([]T, bool) { vsched.Yield("popn"); return rb.r.PopN(n) }
